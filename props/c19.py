"""C19 - to_function reproduces the set_value / set_initial / solve / sample pipeline."""
import copy
import numpy as np
import casadi as ca
from hypothesis import strategies as st

from vlib import gen
from vlib.build import make_method, IPOPT_QUIET
from vlib.core import Fail, HarnessInconclusive
from vlib.nlp import close, DMa

ID = "C19"
LEVEL = "exploration"
BUDGET = {"quick": (8, 14), "thorough": (16, 500)}
RULE = ("Generated strictly convex linear-quadratic OCPs (1-2 states, 1-2 controls, random stable-ish A/B, global vector parameter as initial state, per-interval reference parameter, scalar weight parameter, "
        "inactive or active control bounds) x MultipleShooting|SingleShooting|DirectCollocation x N, M, grid x a generated choice of function arguments (any subset of the parameters, state and control "
        "guesses) and argument values. Oracles: (i) with a converged ipopt (tol 1e-10) the outputs of ocp.to_function equal sol.sample / sol.value after the same values were assigned with set_value / "
        "set_initial and ocp.solve() on a twin OCP (1e-6); (ii) with max_iter=0 and error_on_fail=False the outputs equal the imperative starting point (isolates the plumbing of guess arguments, incl. "
        "DirectCollocation helper states); (iii) parameters not listed keep the values they currently have, whether assigned before or after the first transcription. Non-trivial = at least one guess argument or an unlisted parameter; distinct = SHA-1 of case JSON.")
ASSUMPTIONS = ["strict convexity: the optimum is unique, so two solver runs from different start points agree to 1e-6", "ipopt honours error_on_fail=False with max_iter=0 and returns the start point"]


@st.composite
def strategy_(draw):
    n = draw(st.integers(1, 2))
    mu = draw(st.integers(1, 2))
    mcls = draw(st.sampled_from(["MS", "SS", "DC"]))
    m = {"cls": mcls, "N": draw(st.integers(1, 4)), "M": draw(st.integers(1, 2)), "grid": draw(gen.grid(classes=("uniform", "geometric", "function"), localize=False))}
    if mcls == "DC":
        m["degree"], m["scheme"] = draw(st.sampled_from([1, 2, 3])), draw(st.sampled_from(["radau", "legendre"]))
    else:
        m["intg"] = "rk"
    A = [[draw(st.sampled_from([-1.0, -0.5, 0.0, 0.5])) for _ in range(n)] for _ in range(n)]
    B = [[draw(st.sampled_from([1.0, 0.5, -1.0])) for _ in range(mu)] for _ in range(n)]
    args = list(draw(st.permutations(sorted(set(draw(st.lists(st.sampled_from(["pg", "pr", "pw", "pq", "xguess", "uguess"]), min_size=1, max_size=6)))))))   # every order of the chosen arguments
    if mcls == "SS":
        args = [a for a in args if a != "xguess"] or ["pg"]
    N = m["N"]
    nq = draw(st.sampled_from([2, N, N])) if N > 1 else 2        # a vector-valued per-interval parameter, often with as many entries as intervals
    vals = {"pq": [[draw(gen.small()) for _ in range(N)] for _ in range(nq)], "pg": [draw(gen.small()) for _ in range(n)], "pr": [draw(gen.small()) for _ in range(N)], "pw": draw(gen.small()),
            "xguess": [[draw(gen.small()) for _ in range(N + 1)] for _ in range(n)], "uguess": [[draw(gen.small()) for _ in range(N)] for _ in range(mu)]}
    current = {"pq": [[draw(gen.small()) for _ in range(N)] for _ in range(nq)], "pg": [draw(gen.small()) for _ in range(n)], "pr": [draw(gen.small()) for _ in range(N)], "pw": draw(gen.small())}
    # "current values" may also have been assigned after the problem was transcribed (e.g. after an earlier solve or query)
    late = {k: v for k, v in {"pg": [draw(gen.small()) for _ in range(n)], "pr": [draw(gen.small()) for _ in range(N)], "pw": draw(gen.small())}.items() if draw(st.integers(0, 2)) == 0}
    return {"n": n, "mu": mu, "nq": nq, "method": m, "A": A, "B": B, "T": draw(st.sampled_from([1.0, 2.0, 0.5])), "t0": draw(st.sampled_from([0.0, 1.0])), "umax": draw(st.sampled_from([0.5, 5.0])),
            "args": args, "vals": vals, "current": current, "late": late, "labels": draw(st.sampled_from([None, None, "named", "many"])), "rng": draw(st.integers(0, 2**31 - 1))}


def strategy(tier):
    return strategy_()


def nontrivial(case):
    return bool({"xguess", "uguess"} & set(case["args"])) or bool({"pg", "pr", "pw", "pq"} - set(case["args"]))


def classify(case):
    labs = ["method:" + case["method"]["cls"], "grid:" + case["method"]["grid"]["cls"], "labels:%s" % case.get("labels")] + ["arg:" + a for a in case["args"]] + ["unlisted:" + a for a in sorted({"pg", "pr", "pw", "pq"} - set(case["args"]))]
    if "xguess" in case["args"] and case["args"][-1] != "xguess":
        labs.append("state guess followed by another argument")
    if set(case.get("late", {})) - set(case["args"]):
        labs.append("unlisted parameter assigned after transcription")
    return labs


def abbreviate(case):
    return {k: case[k] for k in ("method", "A", "B", "args", "T", "t0", "umax", "rng")}


def make(case, solver_opts):
    from rockit import Ocp
    n, mu = case["n"], case["mu"]
    ocp = Ocp(t0=case["t0"], T=case["T"])
    x = ocp.state(n)
    u = ocp.control(mu)
    pg = ocp.parameter(n)
    pr = ocp.parameter(grid="control")
    pw = ocp.parameter()
    pq = ocp.parameter(case.get("nq", 2), grid="control")
    ocp.set_der(x, ca.DM(case["A"]) @ x + ca.DM(case["B"]) @ u)
    ref_ = ca.vertcat(pr, ca.DM.zeros(n - 1)) if n > 1 else pr
    wq = ca.DM([0.1 * (j + 1) for j in range(case.get("nq", 2))])
    ocp.add_objective(ocp.integral(ca.sumsqr(x - ref_) + (1 + pw ** 2) * ca.sumsqr(u)) + ocp.at_tf(ca.sumsqr(x)) + ocp.sum((u[0] - ca.dot(wq, pq)) ** 2))
    ocp.subject_to(ocp.at_t0(x) == pg)
    ocp.subject_to(-case["umax"] <= (u <= case["umax"]))
    ocp.set_value(pg, ca.DM(case["current"]["pg"]))
    ocp.set_value(pr, ca.DM(case["current"]["pr"]).T)
    ocp.set_value(pw, case["current"]["pw"])
    ocp.set_value(pq, ca.DM(np.array(case["current"].get("pq", [[0.0] * case["method"]["N"]] * case.get("nq", 2)))))
    ocp.method(make_method(case["method"]))
    opts = dict(IPOPT_QUIET)
    opts.update(solver_opts)
    ocp.solver("ipopt", opts)
    if case.get("late"):
        ocp.sample(x, grid="control")      # transcribes
        for k, v in case["late"].items():
            ocp.set_value({"pg": pg, "pr": pr, "pw": pw}[k], ca.DM(v).T if k == "pr" else (ca.DM(v) if k == "pg" else v))
    return ocp, {"x": x, "u": u, "pg": pg, "pr": pr, "pw": pw, "pq": pq}


def results_of(ocp, S):
    return [ocp.sample(S["x"], grid="control")[1], ocp.sample(S["u"], grid="control-")[1], ocp.value(ocp.objective)]


def arg_exprs(ocp, S, args):
    out = []
    for a in args:
        if a in ("pg", "pw"):
            out.append(ocp.value(S[a]))
        elif a == "pr":
            out.append(ocp.sample(S["pr"], grid="control-")[1])
        elif a == "pq":
            out.append(ocp.sample(S["pq"], grid="control-")[1])
        elif a == "xguess":
            out.append(ocp.sample(S["x"], grid="control")[1])
        elif a == "uguess":
            out.append(ocp.sample(S["u"], grid="control-")[1])
    return out


def arg_values(case):
    v = case["vals"]
    out = []
    for a in case["args"]:
        if a == "pg":
            out.append(ca.DM(v["pg"]))
        elif a == "pw":
            out.append(ca.DM(v["pw"]))
        elif a == "pr":
            out.append(ca.DM(v["pr"]).T)
        elif a == "pq":
            out.append(ca.DM(np.array(v["pq"])))
        elif a == "xguess":
            out.append(ca.DM(np.array(v["xguess"])))
        elif a == "uguess":
            out.append(ca.DM(np.array(v["uguess"])))
    return out


def imperative(case, solver_opts, start_only=False):
    ocp, S = make(case, solver_opts)
    v = case["vals"]
    for a in case["args"]:
        if a == "pg":
            ocp.set_value(S["pg"], ca.DM(v["pg"]))
        elif a == "pw":
            ocp.set_value(S["pw"], v["pw"])
        elif a == "pr":
            ocp.set_value(S["pr"], ca.DM(v["pr"]).T)
        elif a == "pq":
            ocp.set_value(S["pq"], ca.DM(np.array(v["pq"])))
        elif a == "xguess":
            ocp.set_initial(S["x"], np.array(v["xguess"]))
        elif a == "uguess":
            ocp.set_initial(S["u"], np.array(v["uguess"]))
    res = results_of(ocp, S)
    if start_only:
        return [DMa(ocp.initial_value(r)) for r in res]
    sol = ocp.solve()
    return [DMa(sol.value(r)) for r in res]


def make_function(ocp, S, case, name):
    """to_function with the generated labelling: none, user labels that are not in alphabetical order, or more than ten outputs."""
    args, res = arg_exprs(ocp, S, case["args"]), results_of(ocp, S)
    lab = case.get("labels")
    if lab == "named":
        return ocp.to_function(name, args, res, ["in_%s" % a for a in case["args"]], ["x_traj", "u_traj", "J"]), 3
    if lab == "many":
        extra = [ocp.value(ocp.objective) * (j + 2) for j in range(9)]        # outputs o3..o11: 2J, 3J, ...
        return ocp.to_function(name, args, res + extra), 3
    return ocp.to_function(name, args, res), 3


def check(case, ctx):
    m = case["method"]
    feats = {"method": m["cls"], "args": case["args"], "guess_args": sorted({"xguess", "uguess"} & set(case["args"]))}
    fails = []
    # (ii) plumbing of the arguments: zero iterations
    opts0 = {"ipopt.max_iter": 0, "error_on_fail": False}
    ocp, S = make(case, opts0)
    try:
        f0, _ = make_function(ocp, S, case, "f0")
    except Exception as ex:
        fails.append(Fail("to_function-raises", feats, {"message": str(ex).strip().splitlines()[-1][:160]}))
        return fails
    raw0 = [DMa(o) for o in f0(*arg_values(case))] if len(case["args"]) else []
    out0 = raw0[:3]
    if case.get("labels") == "many" and raw0 and not all(close(raw0[3 + j], (j + 2) * raw0[2], 1e-9, 1e-10) for j in range(9)):
        fails.append(Fail("output-order", dict(feats, labels="many"), {"objective": raw0[2], "multiples": [float(r.reshape(-1)[0]) for r in raw0[3:]]}))
    want0 = imperative(case, opts0, start_only=True)
    names = ["states@control", "controls@control-", "objective"]
    for nm, a, b in zip(names, out0, want0):
        if a.shape != b.shape and a.size == b.size:
            a = a.reshape(b.shape)
        if not close(a, b, 1e-9, 1e-10):
            fails.append(Fail("start-point-plumbing", dict(feats, output=nm), {"to_function": a, "imperative_start": b}))
    ctx.count("zero_iteration_calls")
    if fails:
        return fails
    # (iii) a second export of the same signature after an unlisted parameter got a new value: the new current value applies
    unl = [a for a in ("pw", "pr") if a not in case["args"]]
    if unl and case["args"]:
        k = unl[0]
        cur = case.get("late", {}).get(k, case["current"][k])
        newv = (cur + 0.75) if k == "pw" else [c + 0.75 for c in cur]
        ocp.set_value(S[k], ca.DM(newv).T if k == "pr" else newv)
        f1, _ = make_function(ocp, S, case, "f0")
        out1 = [DMa(o) for o in f1(*arg_values(case))][:3]
        case2 = copy.deepcopy(case)
        case2["late"] = dict(case.get("late", {}), **{k: newv})
        want1 = imperative(case2, opts0, start_only=True)
        for nm, a, b in zip(names, out1, want1):
            if a.shape != b.shape and a.size == b.size:
                a = a.reshape(b.shape)
            if not close(a, b, 1e-9, 1e-10):
                fails.append(Fail("re-export-uses-stale-values", dict(feats, output=nm, reassigned=k), {"to_function_second_export": a, "imperative_start": b}))
        ctx.count("second_exports")
        if fails:
            return fails
    # (i) converged solve
    optsC = {"ipopt.tol": 1e-10, "ipopt.max_iter": 200}
    ocp, S = make(case, optsC)
    fC, _ = make_function(ocp, S, case, "fC")
    try:
        outC = [DMa(o) for o in fC(*arg_values(case))][:3]
        wantC = imperative(case, optsC)
    except Exception as ex:
        raise HarnessInconclusive("solver failed: %s" % str(ex)[:60])
    for nm, a, b in zip(names, outC, wantC):
        if a.shape != b.shape and a.size == b.size:
            a = a.reshape(b.shape)
        if not close(a, b, 1e-6, 1e-6):
            fails.append(Fail("converged-outputs", dict(feats, output=nm), {"to_function": a, "imperative": b}))
    ctx.count("solves", 2)
    return fails


TECHNIQUE = "property-based testing (Hypothesis): differential to_function vs imperative set_value/set_initial/solve/sample on generated strictly convex LQ problems; zero-iteration variant isolates argument plumbing"
LEVEL_TEXT = ("Generated-input exploration with a differential oracle between the CasADi function returned by to_function and the imperative pipeline on a twin OCP, once with a converged solver "
              "(unique optimum) and once with zero iterations so that outputs expose exactly the starting point built from the guess arguments and the current/unlisted parameter values.")
LEVEL_NOTE = "Trusted: uniqueness of the optimum of the generated strictly convex problems; ipopt; CasADi Opti.to_function."
