"""C15 - grid='inf' constraints guarantee satisfaction between grid points."""
import copy
import math
import numpy as np
import casadi as ca
from hypothesis import strategies as st

from vlib import gen, ref, obs
from vlib import expr as E
from vlib.build import build
from vlib.core import Fail, HarnessInconclusive
from vlib.nlp import NLP, close, time_like_vars, random_points

ID = "C15"
LEVEL = "exploration"
BUDGET = {"quick": (8, 60), "thorough": (16, 2500)}
K = 3
DENSE = 240
RULE = ("Generated polynomial constraints (degree 1..2 in scalar states: sums, products, squares, inf_der and inf_inert terms, control and parameter factors; one- and two-sided) declared with "
        "grid='inf' x SingleShooting|MultipleShooting with rk, DirectCollocation degree 4 x N 1..4 x M 1..4 x uniform, geometric, function, density and free grids x fixed/free horizon, plus a class of "
        "unsupported declarations (non-polynomial operators, explicit t, expl_euler, DirectCollocation degree != 4). Oracle (sufficiency, bound-free form): at 3 random decision vectors and on every "
        "integrator step, min over 240 dense times of the margin of the constrained expression along the scheme's own polynomial trajectory (re-fitted from refined samples) >= min slack of the NLP "
        "rows that the constraint added for that step; unsupported declarations must raise or pass the same check. Statistic: certificate gap at M=1 vs M=4 on SingleShooting (tightness). "
        "Non-trivial = non-uniform grid, product/square term, M>1 or unsupported class; distinct = SHA-1 of case JSON.")
ASSUMPTIONS = ["rows added by the inf constraint are identified as the rows of the NLP that have no equal in the NLP without it, in transcription order, equally many per integrator step",
               "dense sampling under-estimates the true extremum (conservative: no false alarms)"]


@st.composite
def poly_expr(draw, xs, us, ps, unsupported=None):
    """Scalar polynomial of degree <= 2 in the scalar states xs."""
    terms = []
    n = draw(st.integers(1, 3))
    for _ in range(n):
        kind = gen.weighted(draw, [("lin", 4), ("prod", 2), ("sq", 2), ("der", 2), ("inert", 2), ("xder", 1), ("affprod", 2), ("inert_minus", 1)])
        c = E.C(draw(gen.coef()))
        a = draw(st.sampled_from(xs))
        if kind == "lin":
            t = ["*", c, a]
        elif kind == "prod":
            t = ["*", c, ["*", a, draw(st.sampled_from(xs))]]
        elif kind == "sq":
            t = ["*", c, ["sq", a]]
        elif kind == "der":
            t = ["*", c, ["infder", a]]
        elif kind == "xder":
            t = ["*", c, ["*", a, ["infder", draw(st.sampled_from(xs))]]]
        elif kind == "affprod":
            # product of affine factors written the way users write them: (c1 - x)*(c2 + y)
            f1 = [draw(st.sampled_from(["-", "+"])), E.C(draw(gen.small())), a]
            f2 = [draw(st.sampled_from(["-", "+"])), draw(st.sampled_from(xs)), E.C(draw(gen.small()))]
            t = ["*", f1, f2] if draw(st.booleans()) else ["*", c, f1]
        elif kind == "inert_minus":
            t = ["-", ["inert", draw(st.sampled_from(us + ps))], a]
        elif kind == "inert":
            inner = draw(st.sampled_from(xs + us))
            t = ["*", ["*", c, ["inert", inner]], a]
        else:
            t = ["*", ["*", c, draw(st.sampled_from(us + ps)) if (us + ps) else E.C(1.0)], a]
        terms.append(t)
    if unsupported == "nonpoly":
        a = draw(st.sampled_from(xs))
        terms.append(["*", E.C(draw(gen.coef())), [draw(st.sampled_from(["cos", "sin", "tanh"])), a]])
    if unsupported == "extra_symbol":
        # a bare control / parameter factor (not wrapped in inf_inert) is outside the documented domain
        terms.append(["*", ["*", E.C(draw(gen.coef())), draw(st.sampled_from(us + ps))], draw(st.sampled_from(xs))])
    if unsupported == "time":
        terms.append(["*", E.C(draw(st.sampled_from([2.0, -2.0, 1.5]))), ["t"]])
    e = terms[0]
    for i, t in enumerate(terms[1:]):
        # a difference of two identical terms would cancel symbolically
        e = [draw(st.sampled_from(["+", "+", "-"])) if all(t[2:] != o[2:] for o in terms[:i + 1]) else "+", e, t]
    # constants on either side of the polynomial part, and negation
    w = draw(st.integers(0, 5))
    if w == 0:
        e = ["-", E.C(draw(gen.small())), e]
    elif w == 1:
        e = ["-", e, E.C(draw(gen.small()))]
    elif w == 2:
        e = ["neg", e]
    elif w == 3:
        e = ["+", E.C(draw(gen.small())), e]
    return e


@st.composite
def strategy_(draw):
    nxs = draw(st.integers(1, 2))
    states = [{"name": "x%d" % i, "rows": 1, "cols": 1} for i in range(nxs)]
    controls = [{"name": "u0", "rows": 1, "cols": 1}]
    params = [{"name": "p0", "rows": 1, "cols": 1, "grid": draw(st.sampled_from(["", "control"]))}] if draw(st.booleans()) else []
    tab = {"states": states, "controls": controls, "params": params, "vars": [], "algebraics": []}
    sp = {"name": "main"}
    sp.update(tab)
    sp["t0"] = draw(gen.horizon(kinds=("num", "free"), which="t0"))
    sp["T"] = draw(gen.horizon(kinds=("num", "free"), which="T"))
    unsupported = gen.weighted(draw, [(None, 12), ("nonpoly", 2), ("time", 2), ("euler", 1), ("dc_degree", 1), ("extra_symbol", 1)])
    mcls = draw(st.sampled_from(["MS", "SS", "DC"]))
    gk = {"classes": ("uniform", "geometric", "function", "density", "free"), "localize": True}
    if unsupported == "euler":
        mcls = draw(st.sampled_from(["MS", "SS"]))
    if unsupported == "dc_degree":
        mcls = "DC"
    if mcls == "DC":
        m = draw(gen.collocation_method(maxN=4, maxM=3, degrees=(4,) if unsupported != "dc_degree" else (2, 3, 5), grid_kw=gk))
    else:
        m = draw(gen.shooting_method(maxN=4, maxM=4, classes=(mcls,), schemes=("rk",) if unsupported != "euler" else ("expl_euler",), grid_kw=gk))
    sp["der"] = gen.dynamics(draw, tab)
    sp["method"] = m
    gen.fill_param_values(draw, sp, m["N"])
    xs, us, ps = gen.leaves_of(states), gen.leaves_of(controls), gen.leaves_of(params)
    cons = []
    for _ in range(1):   # one inf constraint per case: rows are attributed to it by count
        e = draw(poly_expr(xs, us, ps, unsupported if unsupported in ("nonpoly", "time", "extra_symbol") else None))
        rel = draw(st.sampled_from(["<=", ">=", "box"]))
        c = {"lhs": [e], "rel": rel, "grid": "inf"}
        if rel == "box":
            lo = draw(gen.small())
            c["lb"], c["ub"] = [E.C(lo)], [E.C(lo + draw(st.sampled_from([0.5, 1.0, 2.0])))]
        else:
            lead = e[1][1] if (e[0] in ("-", "+") and e[1][0] == "c") else None   # constant written first: c - e, c + e
            c["rhs"] = [E.C(draw(gen.small().filter(lambda v: v != lead)))]
        cons.append(c)
    sp["constraints"] = cons
    rng_ = draw(st.integers(0, 2**31 - 1))
    if len(xs) == 2 and unsupported is None and draw(st.integers(0, 3)) == 0:
        # two inf_inert operands over two different controls in one relation: each keeps its own operand
        k1, k2 = draw(st.sampled_from([0.5, 1.0, -0.75])), draw(st.sampled_from([0.25, -0.5, 1.5]))
        sp["controls"].append({"name": "u1", "rows": 1, "cols": 1})      # a second control (unnamed controls all print as 'u'), used only here
        cons[0]["lhs"] = [["+", ["*", ["*", E.C(k1), ["inert", us[0]]], xs[1]], ["*", ["*", E.C(k2), ["inert", E.S("u1")]], xs[0]]]]
    return {"spec": sp, "unsupported": unsupported, "rng": rng_}


def strategy(tier):
    return strategy_()


def has_product(case):
    return any(E.has_op(c["lhs"][0], "sq") or any(n[0] == "*" and n[1][0] != "c" and n[2][0] != "c" for n in E.walk(c["lhs"][0])) for c in case["spec"]["constraints"])


def nontrivial(case):
    m = case["spec"]["method"]
    return bool(gen.grid_nontrivial(m["grid"]) or has_product(case) or m["M"] > 1 or case["unsupported"])


def classify(case):
    m = case["spec"]["method"]
    labs = ["method:" + m["cls"], "grid:" + m["grid"]["cls"], "class:" + (case["unsupported"] or "supported")]
    if m["M"] > 1:
        labs.append("M>1")
    if has_product(case):
        labs.append("degree-2")
    for c in case["spec"]["constraints"]:
        labs.append("rel:" + c["rel"])
        if E.has_op(c["lhs"][0], "infder"):
            labs.append("inf_der")
        if E.has_op(c["lhs"][0], "inert"):
            labs.append("inf_inert")
    return sorted(set(labs))


def abbreviate(case):
    sp = case["spec"]
    return {"method": sp["method"], "T": sp["T"], "t0": sp["t0"], "constraints": sp["constraints"], "unsupported": case["unsupported"], "rng": case["rng"]}


def ev_dense(e, env):
    """Vectorised evaluation along one integrator step.  env: name -> array over the dense times (or scalar)."""
    op = e[0]
    if op == "c":
        return e[1]
    if op == "sym":
        return env["sym"][e[1]]
    if op == "t":
        return env["t"]
    if op == "infder":
        return env["der"][e[1][1]]
    if op == "inert":
        return ev_dense(e[1], env["node"])
    if op == "neg":
        return -ev_dense(e[1], env)
    if op == "sq":
        return ev_dense(e[1], env) ** 2
    if op in ("sin", "cos", "tanh"):
        return getattr(np, op)(ev_dense(e[1], env))
    a, b = ev_dense(e[1], env), ev_dense(e[2], env)
    return a + b if op == "+" else (a - b if op == "-" else a * b)


def added_rows(nW, nB, X):
    """Indices (in g order) of the rows of nW that have no equal in nB, with their slack vectors over the K points."""
    evW = [nW.eval(x) for x in X]
    evB = [nB.eval(x) for x in X]

    def table(evs):
        G = np.array([e["g"] for e in evs]).T
        LB = np.array([e["lbg"] for e in evs]).T
        UB = np.array([e["ubg"] for e in evs]).T
        return G, LB, UB
    GW, LW, UW = table(evW)
    GB, LB_, UB_ = table(evB)
    used = np.zeros(GB.shape[0], dtype=bool)
    out = []
    for i in range(GW.shape[0]):
        hit = -1
        for j in range(GB.shape[0]):
            if not used[j] and np.allclose(GW[i], GB[j], rtol=1e-9, atol=1e-10) and np.array_equal(LW[i], LB_[j]) and np.array_equal(UW[i], UB_[j]):
                hit = j
                break
        if hit >= 0:
            used[hit] = True
        else:
            out.append(i)
    return out, (GW, LW, UW), evW, bool(np.all(used))


def check(case, ctx):
    sp = copy.deepcopy(case["spec"])
    m = sp["method"]
    N, M = m["N"], m["M"]
    rng = np.random.default_rng(case["rng"])
    unsupported = case["unsupported"]
    feats = {"method": m["cls"], "tgrid": m["grid"]["cls"], "class": unsupported or "supported", "M>1": M > 1,
             "localized": bool(m["grid"].get("localize_t0") or m["grid"].get("localize_T"))}
    sp["objective"] = gen.activation_objective(sp)
    spB = copy.deepcopy(sp)
    spB["constraints"] = []
    BB = build(spB)
    nB = NLP(BB.ocp)
    from vlib.build import constraint_mx
    BB.stage = BB.ocp
    c0 = sp["constraints"][0]
    parts0 = [c0["lhs"][0]] + [c0[k][0] for k in ("rhs", "lb", "ub") if k in c0]
    if ca.MX(constraint_mx(BB, BB.ocp, c0)).is_constant() or E.lost_offsets(parts0, signals_too=True, live_ops=("sym", "infder")):
        # CasADi itself reduced the relation to a constant (c + x*x >= c is "1", x - x <= -1 is "0"), or every state term cancels
        # (-1 - (x + (inert(u) - x)) <= c): nothing to certify, and rockit refusing such a relation is right
        ctx.count("degenerate_relation")
        return []
    try:
        BW = build(sp)
        nW = NLP(BW.ocp)
    except Exception as ex:
        if unsupported:
            ctx.count("unsupported_rejected")
            return []
        raise
    if nW.nx != nB.nx:
        raise HarnessInconclusive("variable count differs with/without the inf constraint")
    ocp = BW.ocp
    R = 8
    names = [d["name"] for d in sp["states"]]
    probes = obs.stage_probes(BW, "main", dc=False)
    tr_, _ = ocp.sample(ocp.t, grid="integrator", refine=R)
    probes["t_ref"] = tr_
    for n in names:
        probes["ref:" + n] = ocp.sample(BW.syms[n], grid="integrator", refine=R)[1]
    nW.add_all(probes)
    tl = time_like_vars(nW, [probes["main|tk"], probes["main|T"]])
    X = random_points(nW, rng, K, time_like=tl)
    idx, (GW, LW, UW), evW, base_ok = added_rows(nW, nB, X)
    fails = []
    if not base_ok:
        fails.append(Fail("base-rows-lost", feats, {}))
        return fails
    nsteps = N * M
    if len(idx) == 0:
        fails.append(Fail("no-rows-added", feats, {"note": "grid='inf' constraint accepted but nothing was imposed"}))
        return fails
    if len(idx) % nsteps != 0:
        raise HarnessInconclusive("added rows cannot be grouped per integrator step")
    per = len(idx) // nsteps
    s = np.linspace(0.0, 1.0, DENSE)
    ncon = len(sp["constraints"])
    if per % ncon != 0:
        raise HarnessInconclusive("added rows cannot be grouped per constraint")
    per_c = per // ncon
    worst = None
    for pt in range(K):
        res = evW[pt]
        data = ref.override_params(obs.unpack(res, "main"), sp, N)
        tk = data["tk"]
        tref = res["t_ref"].reshape(-1)
        for k in range(N):
            dt = (tk[k + 1] - tk[k]) / M
            for l in range(M):
                step = k * M + l
                sl = slice(step * R, step * R + R)
                sloc = (tref[sl] - tref[step * R]) / dt if abs(dt) > 1e-12 else None
                if sloc is None:
                    raise HarnessInconclusive("degenerate step")
                env = {"sym": {}, "der": {}, "t": tref[step * R] + s * dt}
                node = {"sym": {}, "der": {}, "t": tk[k]}
                for n in names:
                    vals = res["ref:" + n].reshape(-1)[sl]
                    coef = np.polynomial.polynomial.polyfit(sloc, vals, 4)
                    if np.max(np.abs(np.polynomial.polynomial.polyval(sloc, coef) - vals)) > 1e-8 * (1 + np.max(np.abs(vals))):
                        raise HarnessInconclusive("step trajectory is not a degree-4 polynomial")
                    env["sym"][n] = np.polynomial.polynomial.polyval(s, coef)
                    env["der"][n] = np.polynomial.polynomial.polyval(s, np.polynomial.polynomial.polyder(coef)) / dt
                    node["sym"][n] = float(data["sig"][n][0, k])
                for d in sp["controls"] + sp["params"]:
                    if d["name"] in data["glob"]:
                        v = float(data["glob"][d["name"]][0])
                    else:
                        v = float(data["sig"][d["name"]][0, k])
                    env["sym"][d["name"]] = v
                    node["sym"][d["name"]] = v
                env["node"] = node
                rows = idx[step * per:(step + 1) * per]
                for ci, c in enumerate(sp["constraints"]):
                    e_t = ev_dense(c["lhs"][0], env) * np.ones_like(s)
                    rr = rows[ci * per_c:(ci + 1) * per_c]
                    g, lb, ub = GW[rr, pt], LW[rr, pt], UW[rr, pt]
                    fin_ub, fin_lb = np.isfinite(ub), np.isfinite(lb)
                    # bound constants of the declaration
                    if c["rel"] == "<=":
                        upper, lower = c["rhs"][0][1], None
                    elif c["rel"] == ">=":
                        upper, lower = None, c["rhs"][0][1]
                    else:
                        upper, lower = c["ub"][0][1], c["lb"][0][1]
                    if upper is not None:
                        if not fin_ub.any():
                            fails.append(Fail("certificate-rows-missing", dict(feats, side="upper"), {"step": step}))
                            return fails
                        cert = float(np.min((ub - g)[fin_ub]))          # min slack of the rows
                        true = float(np.min(upper - e_t))
                        gap = true - cert
                        if worst is None or gap < worst[0]:
                            worst = (gap, {"step": [k, l], "side": "upper", "min_margin_on_step": true, "min_row_slack": cert, "constraint": ci, "dt": dt, "uniform_dt": data["T"] / N / M})
                    if lower is not None:
                        if not fin_lb.any():
                            fails.append(Fail("certificate-rows-missing", dict(feats, side="lower"), {"step": step}))
                            return fails
                        cert = float(np.min((g - lb)[fin_lb]))
                        true = float(np.min(e_t - lower))
                        gap = true - cert
                        if worst is None or gap < worst[0]:
                            worst = (gap, {"step": [k, l], "side": "lower", "min_margin_on_step": true, "min_row_slack": cert, "constraint": ci, "dt": dt, "uniform_dt": data["T"] / N / M})
    ctx.count("numeric_points", K)
    ctx.count("steps_checked", K * nsteps)
    if worst is not None and worst[0] < -1e-7 * (1 + abs(worst[1]["min_row_slack"])):
        sub = "insufficient-certificate" if not unsupported else "unsupported-accepted-unsound"
        fails.append(Fail(sub, feats, dict(worst[1], violation=-worst[0])))
    elif unsupported:
        ctx.count("unsupported_accepted_sound")
    return fails


TECHNIQUE = "property-based testing (Hypothesis): validity-predicate oracle - the NLP rows added by a grid='inf' constraint must lower-bound the constraint margin over dense times of each integrator step's own polynomial"
LEVEL_TEXT = ("Generated-input exploration with a sufficiency predicate: per integrator step and at arbitrary decision vectors the minimum slack of the rows added by the inf constraint must not exceed the "
              "minimum margin of the constrained expression over 240 dense times of the step polynomial (bound enters additively, so this is 'rows satisfied => constraint holds everywhere' for every bound). "
              "Unsupported declarations must raise or satisfy the same predicate. Tightness as M grows is reported as a statistic only (see DESIGN.md residuals).")
LEVEL_NOTE = "Trusted: refined sampling to re-fit the step polynomial (its own consistency is C08), CasADi evaluation; dense sampling instead of exact extrema (conservative)."
