"""C13 - the transcription depends only on the final specification, not on its history."""
import copy
import numpy as np
import casadi as ca
from hypothesis import strategies as st

from vlib import gen, ref, obs
from vlib import expr as E
from vlib.build import build, vec_expr, apply_value, apply_initial, apply_constraint, make_method, IPOPT_QUIET
from vlib.core import Fail, HarnessInconclusive
from vlib.nlp import NLP, Rows, diff_rows, close, summarize_diff, DMa
from props import c04, c05

ID = "C13"
LEVEL = "exploration"
BUDGET = {"quick": (8, 30), "thorough": (16, 800)}
K = 2
RULE = ("Model-based history testing: a generated OCP and a generated sequence (3..12 steps) over set_value, set_initial, subject_to, clear_constraints, add_objective (on the OCP and, when there is one, on its sub-stage), method (class/N/M/grid change), "
        "solver (options change), set_T, set_t0, sample, value, jacobian, sub-stage sample and limited solves is applied to the real OCP and mirrored on a JSON model spec. After every query/solve "
        "and at the end: objective, constraint-row multiset, parameter vector and starting point of the evolved OCP equal those of a fresh build of the model spec at random decision vectors; "
        "two consecutive queries give identical data; declared lists (states, controls, variables, declared constraints, objective, horizon declaration) equal the fresh untranscribed build's; "
        "a solve reports the iteration limit currently configured. Non-trivial = at least one mutation after the first transcription; distinct = SHA-1 of case JSON.")
ASSUMPTIONS = ["a fresh build declares in canonical order; constraint order may differ from the evolved OCP (multiset comparison)", "ipopt is deterministic on identical problems"]

MUTATORS = [("set_value", 3), ("set_initial", 3), ("subject_to", 3), ("clear_constraints", 1), ("add_objective", 2), ("method", 3), ("solver", 3), ("set_T", 2), ("set_t0", 2), ("set_dyn", 2)]
QUERIES = [("sample", 3), ("value", 1), ("jacobian", 2), ("solve", 2), ("substage_sample", 1)]


@st.composite
def simple_constraint(draw, sp, roots_ok=False):
    tsig = gen.leaves_of([d for d in sp["states"] if not d.get("quad")]) + gen.leaves_of(sp["controls"])
    kind = draw(st.sampled_from(["path", "path", "t0", "tf"]))
    a = draw(st.sampled_from(tsig))
    b = E.C(draw(gen.small()))
    rel = draw(st.sampled_from(["<=", ">=", "=="])) if kind != "path" else draw(st.sampled_from(["<=", ">="]))
    if kind == "path":
        # every grid a path constraint can live on (collocation roots only while the method is DirectCollocation)
        grid = gen.weighted(draw, [(None, 3), ("integrator", 1)] + ([("integrator_roots", 2)] if roots_ok else []))
        if grid == "integrator_roots":
            return {"lhs": [a], "rel": rel, "rhs": [b], "grid": grid}
        return {"lhs": [a], "rel": rel, "rhs": [b], "grid": grid, "include_first": draw(st.booleans()), "include_last": True}
    return {"lhs": [["at_t0" if kind == "t0" else "at_tf", a]], "rel": rel, "rhs": [b], "grid": None}


@st.composite
def strategy_(draw):
    sp = draw(gen.base_ocp(horizons=("num", "free"), maxN=3, maxM=2, degrees=(1, 2, 3), allow_alg=False, discrete_prob=2,
                           table_kw={"shapes": [(1, 1), (1, 1), (2, 1)], "max_params": 2, "max_vars": 1}))
    sp["objective"] = [draw(c05.objective_term(sp))]
    two_globals = draw(st.integers(0, 2)) == 0
    if two_globals:
        # two more global parameters (used in the objective), to be assigned together through their concatenation
        x_first = gen.leaves_of([d for d in sp["states"] if not d.get("quad")])[0]
        for nm in ("cp0", "cp1"):
            sp["params"].append({"name": nm, "rows": 1, "cols": 1, "grid": "", "value": [[draw(gen.small())]]})
        sp["objective"].append(["at_tf", ["*", ["+", E.S("cp0"), ["*", E.C(2.0), E.S("cp1")]], x_first]])
    cur_dc = sp["method"]["cls"] == "DC"
    sp["constraints"] = [draw(simple_constraint(sp, roots_ok=cur_dc)) for _ in range(draw(st.integers(0, 2)))]
    roots_live = any(c.get("grid") == "integrator_roots" for c in sp["constraints"])
    sp["initial"] = []
    sp["solver"] = ["ipopt", {"ipopt.max_iter": draw(st.integers(0, 3))}]
    has_sub = draw(st.integers(0, 2)) == 0
    if has_sub:
        sp["substages"] = [{"name": "s1", "t0": ["num", 0.0], "T": ["num", 1.0], "states": [{"name": "s1x0", "rows": 1, "cols": 1}], "controls": [{"name": "s1u0", "rows": 1, "cols": 1}],
                            "params": [{"name": "s1p0", "rows": 1, "cols": 1, "grid": "", "value": [[draw(gen.small())]]}], "vars": [], "algebraics": [],
                            "der": [["s1x0", [["-", E.S("s1u0"), E.S("s1x0")]]]],
                            "method": {"cls": "MS", "N": 2, "M": 1, "intg": "rk", "grid": {"cls": "uniform"}}, "objective": [["int", ["sq", ["-", E.S("s1u0"), E.S("s1p0")]]]],
                            "constraints": [{"lhs": [["at_t0", E.S("s1x0")]], "rel": "==", "rhs": [E.C(0.5)], "grid": None}]}]
    ops = []
    n = draw(st.integers(3, 12))
    syms = [d for d in sp["states"] + sp["controls"] + sp["vars"] if not d.get("quad") and d["cols"] == 1]
    for _ in range(n):
        if draw(st.integers(0, 9)) < 4:
            q = gen.weighted(draw, QUERIES if has_sub else QUERIES[:-1])
            ops.append([q])
            continue
        kind = gen.weighted(draw, MUTATORS + ([("sub_set_value", 2), ("sub_subject_to", 1), ("sub_add_objective", 1)] if has_sub else []))
        globs_ = [d for d in sp["params"] if d.get("grid", "") == "" and d["cols"] == 1 and not d["name"].startswith("hp_")]
        if kind == "set_value" and len(globs_) >= 2 and draw(st.integers(0, 2)) == 0:
            # several parameters assigned in one call on their concatenation
            ops.append(["set_value_concat", [d["name"] for d in globs_[:2]], [[draw(gen.small()) for _ in range(d["rows"])] for d in globs_[:2]]])
            continue
        if kind == "sub_set_value":
            ops.append(["sub_set_value", draw(gen.small())])
        elif kind == "sub_subject_to":
            ops.append(["sub_subject_to", {"lhs": [E.S("s1x0")], "rel": draw(st.sampled_from(["<=", ">="])), "rhs": [E.C(draw(gen.small()))], "grid": None, "include_first": False, "include_last": True}])
        elif kind == "sub_add_objective":
            ops.append(["sub_add_objective", ["*", E.C(draw(gen.small())), ["at_tf", ["sq", E.S("s1x0")]]]])
        elif kind == "set_value":
            cands = [d for d in sp["params"] if not d["name"].startswith("hp_")]
            if not cands:
                continue
            d = draw(st.sampled_from(cands))
            g = d.get("grid", "")
            ops.append(["set_value", d["name"], [draw(gen.small()) for _ in range(d["rows"] * d["cols"])]])   # flat; columns rebuilt from the current N
        elif kind == "set_initial":
            d = draw(st.sampled_from(syms))
            if sp["method"]["cls"] == "DC" and d in sp["states"] and d["rows"] > 1:
                continue
            ops.append(["set_initial", d["name"], draw(gen.small())])
        elif kind == "subject_to":
            c = draw(simple_constraint(sp, roots_ok=cur_dc))
            roots_live = roots_live or c.get("grid") == "integrator_roots"
            ops.append(["subject_to", c])
        elif kind == "clear_constraints":
            ops.append(["clear_constraints"])
            roots_live = False
        elif kind == "add_objective":
            ops.append(["add_objective", draw(c05.objective_term(sp))])
        elif kind == "method":
            mcls = draw(st.sampled_from(["MS", "SS", "DC"]))
            if sp.get("next") and mcls == "DC":
                mcls = "MS"
            if roots_live:
                mcls = "DC"     # shooting methods refuse constraints on collocation roots
            cur_dc = mcls == "DC"
            if mcls == "DC":
                mm = draw(gen.collocation_method(maxN=3, maxM=2, degrees=(1, 2, 3)))
            else:
                mm = draw(gen.shooting_method(maxN=3, maxM=2, classes=(mcls,)))
            ops.append(["method", mm])
        elif kind == "solver":
            # either a new options dictionary, or the dictionary handed over last time edited in place and handed over again
            ops.append(["solver", {"ipopt.max_iter": draw(st.integers(0, 3))}, draw(st.booleans())])
        elif kind == "set_T":
            # a number, or the horizon (re-)declared free with a new guess
            ops.append(["set_T", draw(st.sampled_from([0.5, 1.0, 1.5, 2.0])), draw(st.integers(0, 2)) == 0])
        elif kind == "set_t0":
            ops.append(["set_t0", draw(st.sampled_from([0.0, 0.5, -1.0])), draw(st.integers(0, 2)) == 0])
        elif kind == "set_dyn":
            # the right-hand side of one state declared again (set_der / set_next overwrite): same dimensions, another function
            dyn_ = [d for d in sp["states"] if not d.get("quad")]
            ops.append(["set_dyn", draw(st.sampled_from(dyn_))["name"], draw(st.sampled_from([0.5, -1.0, 1.5, 2.0]))])
    cands_ = [d for d in sp["params"] if not d["name"].startswith("hp_")]
    ctrl_ = [d for d in syms if d in sp["controls"]]
    if cands_ and ctrl_ and draw(st.integers(0, 2)) == 0:
        # query, new parameter value, unrelated initial guess, query: both edits must be honoured together
        d = draw(st.sampled_from(cands_))
        ops += [["sample"], ["set_value", d["name"], [draw(gen.small()) for _ in range(d["rows"] * d["cols"])]], ["set_initial", ctrl_[0]["name"], draw(gen.small())]]
    if cur_dc and draw(st.integers(0, 2)) == 0:
        # a constraint on the collocation points, a query, clear_constraints, a query: nothing of it may survive
        tsig_ = gen.leaves_of([d for d in sp["states"] if not d.get("quad")])
        ops += [["subject_to", {"lhs": [draw(st.sampled_from(tsig_))], "rel": "<=", "rhs": [E.C(draw(gen.small()))], "grid": "integrator_roots"}], ["sample"], ["clear_constraints"]]
    if sp["T"][0] == "free" and draw(st.integers(0, 1)) == 0:
        # a query, then the free horizon declared free again with another guess: the next query starts from the new guess
        ops += [["sample"], ["set_T", draw(st.sampled_from([0.75, 1.25, 2.5])), True]]
    if two_globals:
        # a query, both parameters assigned in one call, an edit that forces a new transcription: the new values must survive it
        ops += [["sample"], ["set_value_concat", ["cp0", "cp1"], [[draw(gen.small())], [draw(gen.small())]]], ["set_t0", draw(st.sampled_from([0.25, -0.5])), False]]
    if draw(st.integers(0, 3)) == 0:
        # a query, the dynamics of one state declared again with nothing else edited, a query: the new right-hand side must be the one transcribed
        ops += [["sample"], ["set_dyn", [d for d in sp["states"] if not d.get("quad")][0]["name"], draw(st.sampled_from([0.5, -1.0, 2.0]))]]
    if draw(st.integers(0, 3)) == 0:
        # solve, then the same options dictionary edited in place and handed over again, then solve: the new limit must apply
        k1 = draw(st.integers(1, 3))
        k2 = draw(st.sampled_from([k for k in (0, 1, 2, 3) if k != k1]))
        ops += [["solver", {"ipopt.max_iter": k1}, False], ["solve"], ["solver", {"ipopt.max_iter": k2}, True], ["solve"]]
    ops.append(["jacobian"])
    return {"spec": sp, "ops": ops, "rng": draw(st.integers(0, 2**31 - 1))}


def strategy(tier):
    return strategy_()


def mutation_after_transcription(ops):
    seen = False
    out = []
    for op in ops:
        if op[0] in ("sample", "value", "jacobian", "solve", "substage_sample"):
            seen = True
        elif seen:
            out.append(op[0])
    return out


def nontrivial(case):
    return bool(mutation_after_transcription(case["ops"]))


def classify(case):
    labs = ["method:" + case["spec"]["method"]["cls"]]
    for k in sorted(set(mutation_after_transcription(case["ops"]))):
        labs.append("after-transcription:" + k)
    for k in sorted({op[0] for op in case["ops"]}):
        labs.append("op:" + k)
    if any(a[0] == "solve" for a in case["ops"]):
        labs.append("has-solve")
    return labs


def abbreviate(case):
    return {"method": case["spec"]["method"], "T": case["spec"]["T"], "t0": case["spec"]["t0"], "ops": [op if op[0] not in ("subject_to", "add_objective", "method") else [op[0], "..."] for op in case["ops"]], "rng": case["rng"]}


def param_value_for(d, flat, N):
    """Parameter value (rows x total columns) for the current N built from a flat element list."""
    r, c = d["rows"], d["cols"]
    g = d.get("grid", "")
    reps = 1 if g == "" else (N if g == "control" else N + 1)
    base = np.array(flat, dtype=float).reshape((c, r)).T    # r x c
    return np.hstack([base * (1 + 0.25 * j) for j in range(reps)]).tolist()


def declared_lists(ocp):
    return {"states": [list(s.shape) for s in ocp.states], "controls": [list(s.shape) for s in ocp.controls],
            "variables": {k: [list(s.shape) for s in v] for k, v in ocp.variables.items() if len(v)},
            "parameters": {k: [list(s.shape) for s in v] for k, v in ocp.parameters.items() if len(v)},
            "n_declared_constraints": sum(len(v) for v in ocp._constraints.values()),
            "objective": str(ocp.objective), "T_decl": type(ocp._T).__name__, "t0_decl": type(ocp._t0).__name__,
            "qstates": len(ocp.qstates)}


def check(case, ctx):
    from rockit import FreeTime
    model = copy.deepcopy(case["spec"])
    rng = np.random.default_rng(case["rng"])
    fails = []
    B = build(model)
    ocp = B.ocp
    decl = {d["name"]: d for d in model["states"] + model["controls"] + model["vars"] + model["params"]}
    transcribed_once = False
    history = []

    def feats(extra=None):
        f = {"method": model["method"]["cls"], "mutations_since_transcription": sorted(set(pending))}
        f.update(extra or {})
        return f

    pending = []   # mutators applied since the last checkpoint that followed a transcription

    def checkpoint(tag, solved=None):
        nonlocal transcribed_once
        fresh = build(model)
        dl_e, dl_f = declared_lists(ocp), declared_lists(fresh.ocp)
        if dl_e != dl_f:
            diff = {k: [dl_e[k], dl_f[k]] for k in dl_e if dl_e[k] != dl_f[k]}
            fails.append(Fail("declared-lists-changed", feats({"fields": sorted(diff)}), {"evolved_vs_fresh": diff, "history": history}))
            return False
        nE = NLP(ocp)
        nF = NLP(fresh.ocp)
        transcribed_once = True
        if (nE.nx, nE.np_, nE.ng) != (nF.nx, nF.np_, nF.ng):
            fails.append(Fail("nlp-dimensions", feats(), {"evolved": [nE.nx, nE.np_, nE.ng], "fresh": [nF.nx, nF.np_, nF.ng], "history": history}))
            return False
        if not close(nE.p0, nF.p0, 1e-13, 1e-13):
            fails.append(Fail("parameter-vector", feats(), {"evolved": nE.p0, "fresh": nF.p0, "history": history}))
        if not close(nE.x0, nF.x0, 1e-12, 1e-12):
            fails.append(Fail("starting-point", feats(), {"evolved": nE.x0, "fresh": nF.x0, "history": history}))
        X = rng.uniform(0.3, 1.3, size=(K, nE.nx))
        evE, evF = [nE.eval(x) for x in X], [nF.eval(x) for x in X]
        for a, b in zip(evE, evF):
            if not close(a["f"], b["f"], 1e-11, 1e-12):
                fails.append(Fail("objective", feats(), {"evolved": a["f"], "fresh": b["f"], "history": history}))
                break
        d = diff_rows(Rows.from_evals(evE), Rows.from_evals(evF), rtol=1e-10, atol=1e-11)
        if any(d.values()):
            fails.append(Fail("rows", feats(), dict(summarize_diff(d), history=history)))
        # querying twice changes nothing
        nE2 = NLP(ocp)
        e2 = nE2.eval(X[0])
        if not (close(e2["f"], evE[0]["f"], 0, 0) and close(e2["g"], evE[0]["g"], 0, 0) and close(nE2.x0, nE.x0, 0, 0)):
            fails.append(Fail("query-not-idempotent", feats(), {"history": history}))
        ctx.count("checkpoints")
        if solved is not None and not fails:
            try:
                sf = fresh.ocp.solve_limited()
            except Exception as ex:
                raise HarnessInconclusive("fresh solve failed: %s" % str(ex)[:50])
            it_e, it_f = solved.stats.get("iter_count"), sf.stats.get("iter_count")
            limit = model["solver"][1].get("ipopt.max_iter")
            xe = DMa(solved.sol.value(ocp._method.opti.x)).reshape(-1)
            xf = DMa(sf.sol.value(fresh.ocp._method.opti.x)).reshape(-1)
            if it_e != it_f or (limit is not None and it_e is not None and it_e > limit) or not close(xe, xf, 1e-8, 1e-9):
                fails.append(Fail("solver-settings", feats(), {"iter_count_evolved": it_e, "iter_count_fresh": it_f, "configured_max_iter": limit,
                                                               "max_dx": float(np.max(np.abs(xe - xf))) if len(xe) else 0.0, "history": history}))
            ctx.count("solves", 2)
        pending.clear()
        return not fails

    live_opts = []
    for op in case["ops"]:
        kind = op[0]
        history.append(kind if not (kind == "solver" and len(op) > 2 and op[2] and live_opts) else "solver(same dict edited in place)")
        N = model["method"]["N"]
        if kind == "set_value":
            d = decl[op[1]]
            val = param_value_for(d, op[2], N)
            apply_value(B, ocp, op[1], val)
            d["value"] = val
        elif kind == "set_value_concat":
            ocp.set_value(ca.vertcat(*[B.syms[n] for n in op[1]]), ca.DM([v for vals in op[2] for v in vals]))
            for n, vals in zip(op[1], op[2]):
                decl[n]["value"] = [[v] for v in vals]
        elif kind == "sub_set_value":
            apply_value(B, B.stages["s1"], "s1p0", [[op[1]]])
            model["substages"][0]["params"][0]["value"] = [[op[1]]]
        elif kind == "sub_subject_to":
            B.stage = B.stages["s1"]
            apply_constraint(B, B.stages["s1"], op[1])
            model["substages"][0]["constraints"].append(op[1])
        elif kind == "sub_add_objective":
            B.stage = B.stages["s1"]
            B.stages["s1"].add_objective(E.to_ca(op[1], B, B.stages["s1"]))
            model["substages"][0]["objective"].append(op[1])
        elif kind == "set_initial":
            apply_initial(B, ocp, [op[1], ["num", op[2]]])
            model["initial"] = [it for it in model["initial"] if it[0] != op[1]] + [[op[1], ["num", op[2]]]]
        elif kind == "subject_to":
            B.stage = ocp
            apply_constraint(B, ocp, op[1])
            model["constraints"].append(op[1])
        elif kind == "clear_constraints":
            ocp.clear_constraints()
            model["constraints"] = []
        elif kind == "add_objective":
            B.stage = ocp
            ocp.add_objective(E.to_ca(op[1], B, ocp))
            model["objective"].append(op[1])
        elif kind == "method":
            newN = op[1]["N"]
            # per-interval parameter values must fit the new N: re-issue them (mirrored on the model)
            ocp.method(make_method(op[1]))
            model["method"] = op[1]
            for d in model["params"]:
                if d.get("grid", "") != "":
                    flat = np.array(d["value"], dtype=float)[:, :d["cols"]].flatten(order="F").tolist()
                    val = param_value_for(d, flat, newN)
                    apply_value(B, ocp, d["name"], val)
                    d["value"] = val
        elif kind == "solver":
            if len(op) > 2 and op[2] and live_opts:
                live_opts[0].update(op[1])
                opts = live_opts[0]
            else:
                opts = dict(IPOPT_QUIET)
                opts.update(op[1])
                live_opts[:] = [opts]
            ocp.solver("ipopt", opts)
            model["solver"] = ["ipopt", op[1]]
        elif kind == "set_T":
            free_ = len(op) > 2 and op[2]
            ocp.set_T(FreeTime(op[1]) if free_ else op[1])
            model["T"] = ["free" if free_ else "num", op[1]]
            model["initial"] = [it for it in model["initial"] if it[0] != "T"]
        elif kind == "set_t0":
            free_ = len(op) > 2 and op[2]
            ocp.set_t0(FreeTime(op[1]) if free_ else op[1])
            model["t0"] = ["free" if free_ else "num", op[1]]
            model["initial"] = [it for it in model["initial"] if it[0] != "t0"]
        elif kind == "set_dyn":
            key = "next" if model.get("next") else "der"
            d = decl[op[1]]
            for it in model[key]:
                if it[0] == op[1]:
                    it[1] = [["*", E.C(op[2]), e] for e in it[1]]
                    rhs = vec_expr(B, it[1], d["rows"], d["cols"], ocp)
                    if key == "der":
                        ocp.set_der(B.syms[op[1]], rhs, **({"scale": model["der_scale"][op[1]]} if op[1] in model.get("der_scale", {}) else {}))
                    else:
                        ocp.set_next(B.syms[op[1]], rhs)
        elif kind in ("sample", "value", "jacobian", "substage_sample", "solve"):
            solved = None
            if kind == "sample":
                ocp.sample(B.syms[model["states"][0]["name"]], grid="control")
            elif kind == "value":
                ocp.value(ocp.T)
            elif kind == "jacobian":
                ocp.jacobian()
            elif kind == "substage_sample":
                st1 = B.stages["s1"]
                st1.sample(B.syms["s1x0"], grid="control")
            elif kind == "solve":
                try:
                    solved = ocp.solve_limited()
                except Exception as ex:
                    if "rockit" in str(type(ex)):
                        raise
                    raise HarnessInconclusive("limited solve failed: %s" % str(ex)[:50])
            if not checkpoint(kind, solved):
                return fails
            continue
        if transcribed_once:
            pending.append(kind)
    return fails


TECHNIQUE = "model-based history testing with Hypothesis: generated operation sequences applied to the OCP and mirrored on a JSON model; invariant = equality with a fresh build of the model at every query/solve"
LEVEL_TEXT = ("Generated histories (3..12 operations) over the public mutating and querying API; after every query/solve the evolved OCP's NLP data, starting point, parameter vector, declared lists and "
              "solver iteration limit must equal those of a freshly written OCP with the same final specification.")
LEVEL_NOTE = "Trusted: CasADi evaluation; determinism of ipopt; the builder's canonical declaration order for the fresh OCP."
