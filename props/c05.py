"""C05 - the NLP objective is the sum of the declared Mayer, sum and integral terms."""
import copy
import numpy as np
from hypothesis import strategies as st

from vlib import gen, ref, obs
from vlib import expr as E
from vlib.build import build
from vlib.core import Fail, HarnessInconclusive
from vlib.nlp import NLP, close, time_like_vars, random_points, DMa

ID = "C05"
LEVEL = "exploration"
BUDGET = {"quick": (8, 70), "thorough": (16, 2000)}
K = 3
RULE = ("Generated OCP (all sampling methods, N 1..4, M 1..3, degree 1..5, radau/legendre, every grid class, fixed/free/parametric horizon) with 1-4 objective terms "
        "built from at_t0, at_tf, sum, sum(include_last), integral(grid='control') and integral over nonlinear integrands in states, controls, algebraic values, time, "
        "parameters, variables, T, t0 and tf (inside and outside the placeholders), including products of placeholders; opti.f at 3 random decision vectors is compared with the reference model's sum, "
        "ocp.value(ocp.objective) with opti.f, and sol.value(ocp.objective) of a zero-iteration solve with f at the returned point. "
        "Non-trivial = >=2 terms, or an integral with explicit t and M>1, or a non-uniform/localized grid, or degree<=2; distinct = SHA-1 of the case JSON.")
ASSUMPTIONS = ["ingredient values at nodes / collocation points are read with ocp.sample (C07); parameter values come from the spec"]

TERM_KINDS = [("at_t0", 2), ("at_tf", 3), ("sum", 2), ("sump", 2), ("intc", 2), ("int", 5)]


@st.composite
def objective_term(draw, sp):
    dc = sp["method"]["cls"] == "DC"
    discrete = bool(sp.get("next"))
    sig = gen.signal_leaves(sp)
    kinds = [(k, w) for k, w in TERM_KINDS if not (discrete and k == "int")]
    kind = gen.weighted(draw, kinds)
    pool = sig
    if kind == "int" and dc and sp.get("algebraics"):
        pool = sig + gen.leaves_of(sp["algebraics"])
    inner = draw(gen.free_expr(pool, depth=2))
    if not E.syms_in(inner):
        inner = ["+", inner, draw(st.sampled_from(sig))]
    if kind != "int" and draw(st.integers(0, 2)) == 0:
        # horizon quantities inside the sampled placeholder (not only as outer factors); the integrand of a continuous integral joins
        # the ODE function, whose inputs are x, u, z, p, v and t only: T there is refused loudly by rockit and is outside the domain
        inner = [draw(st.sampled_from(["*", "+"])), inner, draw(st.sampled_from([["T"], ["t0"], ["tf"]]))]
    term = [kind, inner]
    shape = draw(st.integers(0, 5))
    if shape == 0:
        term = ["*", term, ["T"]]
    elif shape == 1:
        other = [draw(st.sampled_from(["at_t0", "at_tf"])), draw(st.sampled_from(sig))]
        term = ["*", term, other]
    elif shape == 2:
        term = ["+", term, ["*", E.C(draw(gen.small())), ["t0"]]]
    return ["*", E.C(draw(gen.coef())), term]


@st.composite
def strategy_(draw):
    sp = draw(gen.base_ocp(discrete_prob=1))
    sp["objective"] = [draw(objective_term(sp)) for _ in range(draw(st.integers(1, 4)))]
    # a further term declared after the problem has been transcribed once (the sum is over all add_objective calls, whenever made)
    late = draw(objective_term(sp)) if draw(st.integers(0, 2)) == 0 else None
    rng_ = draw(st.integers(0, 2**31 - 1))
    # several integrals of the same form over different symbols (rockit's unnamed symbols all print alike): each keeps its own integrand
    lv_ = gen.leaves_of([d for d in sp["states"] if not d.get("quad")]) + gen.leaves_of(sp["controls"])
    if not sp.get("next") and len(lv_) >= 2 and draw(st.integers(0, 2)) == 0:
        for j, leaf in enumerate(lv_[:3]):
            sp["objective"].append(["*", E.C(float(j + 1)), ["int", ["sq", leaf]]])
    return {"spec": sp, "late_term": late, "rng": rng_}


def strategy(tier):
    return strategy_()


def term_kinds(sp):
    ks = set()
    for t in sp["objective"]:
        ks |= E.ops_in(t) & set(E.PLACEHOLDERS)
    return ks


def nontrivial(case):
    sp = case["spec"]
    m = sp["method"]
    int_t = any(n[0] == "int" and E.has_op(n[1], "t") for t in sp["objective"] for n in E.walk(t))
    return bool(len(sp["objective"]) >= 2 or (int_t and m["M"] > 1) or gen.grid_nontrivial(m["grid"]) or (m["cls"] == "DC" and m["degree"] <= 2))


def classify(case):
    sp = case["spec"]
    m = sp["method"]
    labs = ["method:" + m["cls"], "grid:" + m["grid"]["cls"]] + ["term:" + k for k in sorted(term_kinds(sp))] + (["term added after transcription"] if case.get("late_term") else [])
    if m["cls"] == "DC":
        labs.append("dc:%s-%d" % (m["scheme"], m["degree"]))
    else:
        labs.append("scheme:" + ("set_next" if sp.get("next") else m["intg"]))
    return labs


def abbreviate(case):
    sp = case["spec"]
    return {"method": sp["method"], "t0": sp["t0"], "T": sp["T"], "objective": sp["objective"], "rng": case["rng"]}


def check(case, ctx):
    sp = case["spec"]
    m = sp["method"]
    rng = np.random.default_rng(case["rng"])
    N, M = m["N"], m["M"]
    dc = m["cls"] == "DC"
    scheme = "set_next" if sp.get("next") else m.get("intg")
    feats = {"method": m["cls"], "scheme": ("%s-%d" % (m["scheme"], m["degree"])) if dc else scheme, "tgrid": m["grid"]["cls"],
             "terms": sorted(term_kinds(sp))}
    B = build(sp)
    nlp = NLP(B.ocp)
    probes = obs.stage_probes(B, "main", dc=dc, intg=False)
    probes["value_objective"] = B.ocp.value(B.ocp.objective)
    nlp.add_all(probes)
    tl = time_like_vars(nlp, [probes["main|tk"], probes["main|T"]])
    X = random_points(nlp, rng, K, time_like=tl)
    R = ref.StageRef(sp)
    col = ref.Colloc(m["degree"], m["scheme"]) if dc else None
    fails = []
    for i in range(K):
        res = nlp.eval(X[i])
        data = ref.override_params(obs.unpack(res, "main"), sp, N)
        tr = ref.Traj(R, data, M)

        def integral(t, integrand):
            if dc:
                return ref.collocation_integral(t, data, col, integrand)
            return ref.shooting_integral(t, scheme, integrand)

        per_term = [ref.ev_top(t, tr, integral) for t in sp["objective"]]
        expected = float(sum(per_term))
        if not np.isfinite(expected):
            raise HarnessInconclusive("reference overflow")
        if not close(res["f"], expected, rtol=1e-9, atol=1e-9):
            fails.append(Fail("objective-value", feats, {"nlp_f": res["f"], "reference": expected, "per_term": per_term, "point": i}))
            break
        vo = float(np.asarray(res["value_objective"]).reshape(-1)[0])
        if not close(vo, res["f"], rtol=1e-12, atol=1e-12):
            fails.append(Fail("value-of-objective", feats, {"value(ocp.objective)": vo, "nlp_f": res["f"]}))
            break
    ctx.count("numeric_points", K)
    if not fails and case.get("late_term") is not None:
        B.stage = B.ocp
        B.ocp.add_objective(E.to_ca(case["late_term"], B, B.ocp))
        nlp2 = NLP(B.ocp)
        if nlp2.nx == nlp.nx:       # (a term may activate a variable the NLP did not contain before: not comparable then)
            res = nlp.eval(X[0])
            data = ref.override_params(obs.unpack(res, "main"), sp, N)
            tr = ref.Traj(R, data, M)
            integral2 = (lambda t, integrand: ref.collocation_integral(t, data, col, integrand)) if dc else (lambda t, integrand: ref.shooting_integral(t, scheme, integrand))
            want = float(sum(ref.ev_top(t, tr, integral2) for t in sp["objective"] + [case["late_term"]]))
            got = nlp2.eval(X[0])["f"]
            if np.isfinite(want) and not close(got, want, rtol=1e-9, atol=1e-9):
                fails.append(Fail("late-term-not-in-objective", feats, {"nlp_f_after": got, "nlp_f_before": res["f"], "reference_with_late_term": want}))
            ctx.count("late_terms")
    # the number the user reads back is the cost the solver worked on
    if not fails:
        sp2 = copy.deepcopy(sp)
        sp2["solver"] = ["ipopt", {"ipopt.max_iter": 0}]
        B2 = build(sp2)
        sol = B2.ocp.solve_limited()
        opti = B2.ocp._method.opti
        xs = DMa(sol.sol.value(opti.x)).reshape(-1) if opti.nx else np.zeros(0)
        fv = float(sol.value(B2.ocp.objective))
        F = NLP(B2.ocp)
        f_at = F.eval(xs)["f"]
        ctx.count("solves")
        if not close(fv, f_at, rtol=1e-9, atol=1e-10):
            fails.append(Fail("sol-value-objective", feats, {"sol.value(ocp.objective)": fv, "f(x_returned)": f_at}))
    return fails


TECHNIQUE = "property-based testing (Hypothesis): generated objective terms, opti.f at random decision vectors vs numpy reference quadrature/sums (model oracle)"
LEVEL_TEXT = ("Generated-input exploration with an independent reference model of Mayer terms, node sums, interval-weighted sums and the scheme's own quadrature "
              "(RK4/Euler on the augmented system, interpolatory collocation weights that integrate constants exactly); compared with the real NLP objective at random points.")
LEVEL_NOTE = "Trusted: CasADi evaluation of rockit's symbolic objective; ocp.sample read-back of ingredient values; numpy reference in vlib/ref.py."
