"""C08 - refined sampling and samplers interpolate the discrete solution consistently."""
import copy
import math
import numpy as np
import casadi as ca
from numpy.polynomial import polynomial as P
from hypothesis import strategies as st

from vlib import gen, ref, obs
from vlib import expr as E
from vlib.build import build, vec_expr
from vlib.core import Fail, HarnessInconclusive
from vlib.nlp import NLP, close, time_like_vars, random_points, DMa

ID = "C08"
LEVEL = "exploration"
BUDGET = {"quick": (8, 45), "thorough": (16, 1500)}
RFIT = 8
RULE = ("Generated OCP (SingleShooting/MultipleShooting with rk|expl_euler, DirectCollocation degree 1..5 radau|legendre; N 1..4, M 1..3, uniform and non-uniform grids, fixed/free horizon), a refine factor "
        "1..7 and query times. A dynamically feasible decision vector is obtained by Newton iterations on the NLP's own dynamic equality rows from random initial state/controls. Oracles: every r-th refined "
        "entry == integrator-grid sample, every M-th integrator entry == control-grid sample (times and values); per integrator step the refined values lie on one polynomial of the scheme's degree that "
        "starts at the step's start state, ends at the next start state, has slope f(start) (explicit schemes) or passes through the helper states with slope f at every collocation time; "
        "ocp.sampler(e)(gist,t) equals that polynomial at arbitrary t and ocp.sample at grid times; ODEs with polynomial solutions of degree <= 1 / 2 / d are reproduced exactly between grid points. "
        "Non-trivial = non-uniform grid, M>1, refine >= degree or interior query time; distinct = SHA-1 of case JSON.")
ASSUMPTIONS = ["feasible points are found by Newton on the NLP's own equality rows; cases where Newton does not reach 1e-11 are counted inconclusive"]


@st.composite
def dae_strategy(draw):
    """DirectCollocation of a DAE: refined samples and the sampler of expressions with algebraic values."""
    tk = {"max_params": 1, "max_vars": 1, "shapes": [(1, 1), (1, 1), (2, 1)], "grids": ("", "control")}
    sp = draw(gen.base_ocp(methods=("DC",), allow_alg=True, alg_odds=(1, 1), horizons=("num", "free"), table_kw=tk,
                           grid_kw={"classes": ("uniform", "geometric", "function", "free"), "localize": False}))
    leaves = gen.leaves_of(sp["states"]) + gen.leaves_of(sp["controls"]) + gen.leaves_of(sp["algebraics"])
    z = gen.leaves_of(sp["algebraics"])[0]
    e = [draw(st.sampled_from(["+", "*"])), draw(gen.free_expr(leaves, depth=2)), z]
    fr = sorted(set([0.0, 1.0] + [draw(st.sampled_from([0.1, 0.25, 0.37, 0.5, 0.62, 0.75, 0.9, 0.999])) for _ in range(4)]))
    return {"spec": sp, "kind": "dae", "refine": draw(st.integers(1, 6)), "fractions": fr, "expr": e, "rng": draw(st.integers(0, 2**31 - 1))}


@st.composite
def strategy_(draw):
    kind = gen.weighted(draw, [("generic", 4), ("polyode", 2), ("dae", 1)])
    if kind == "dae":
        return draw(dae_strategy())
    tk = {"max_params": 1, "max_vars": 1, "shapes": [(1, 1), (1, 1), (2, 1)], "grids": ("", "control")}
    sp = draw(gen.base_ocp(allow_alg=False, horizons=("num", "free"), table_kw=tk, grid_kw={"classes": ("uniform", "geometric", "function", "free", "density"), "localize": False}))
    m = sp["method"]
    deg = {"expl_euler": 1, "rk": 4}.get(m.get("intg"), m.get("degree"))
    if kind == "polyode":
        # dx/dt = polynomial in t such that the solution has the degree the scheme reproduces exactly
        sol_deg = {"expl_euler": 1, "rk": 2}.get(m.get("intg"), m.get("degree"))
        for name, exprs in sp["der"]:
            for i in range(len(exprs)):
                e = E.C(draw(gen.coef()))
                for pw in range(1, sol_deg):
                    term = E.C(draw(gen.small()))
                    for _ in range(pw):
                        term = ["*", term, ["t"]]
                    e = ["+", e, term]
                exprs[i] = e
    r = draw(st.integers(1, 7))
    fr = sorted(set([0.0, 1.0] + [draw(st.sampled_from([0.1, 0.25, 0.37, 0.5, 0.62, 0.75, 0.9, 0.999])) for _ in range(3)]))
    leaves = gen.leaves_of([d for d in sp["states"]]) + gen.leaves_of(sp["controls"])
    e = draw(gen.free_expr(leaves, depth=2))
    if not E.syms_in(e):
        e = ["+", e, leaves[0]]
    return {"spec": sp, "kind": kind, "refine": r, "fractions": fr, "expr": e, "rng": draw(st.integers(0, 2**31 - 1))}


def strategy(tier):
    return strategy_()


def scheme_degree(m):
    return {"expl_euler": 1, "rk": 4}.get(m.get("intg"), m.get("degree"))


def nontrivial(case):
    m = case["spec"]["method"]
    return bool(gen.grid_nontrivial(m["grid"]) or m["M"] > 1 or case["refine"] >= scheme_degree(m) or any(0 < f < 1 for f in case["fractions"]))


def classify(case):
    m = case["spec"]["method"]
    labs = ["method:" + m["cls"], "scheme:" + (m.get("intg") or "%s-%d" % (m["scheme"], m["degree"])), "grid:" + m["grid"]["cls"], "kind:" + case["kind"], "refine:%d" % case["refine"]]
    if m["M"] > 1:
        labs.append("M>1")
    return labs


def abbreviate(case):
    sp = case["spec"]
    return {"method": sp["method"], "T": sp["T"], "t0": sp["t0"], "kind": case["kind"], "refine": case["refine"], "fractions": case["fractions"], "der": sp["der"][:1], "rng": case["rng"]}


def feasible_point(nlp, B, probes, mcls, rng):
    """Newton on the dynamic equality rows w.r.t. the dependent state variables."""
    opti = nlp.opti
    dep_mx = []
    for lab, mx in probes.items():
        if "|sig:" in lab and B.decl[lab.split(":", 1)[1]]["kind"] == "state" and mcls != "SS":
            dep_mx.append(mx[:, 1:])
        if "|intg:" in lab and mcls == "DC":
            dep_mx.append(mx[:, 1:])
        if "|roots:" in lab and mcls == "DC":
            dep_mx.append(mx)
    x = rng.uniform(-1, 1, nlp.nx)
    tl = time_like_vars(nlp, [probes["main|tk"], probes["main|T"]])
    x[tl] = rng.uniform(0.5, 1.5, len(tl))
    if not dep_mx:
        return x
    dep = time_like_vars(nlp, dep_mx)
    sens = nlp.jac_sparsity()
    ev = nlp.eval(x)
    iseq = np.isfinite(ev["lbg"]) & (ev["lbg"] == ev["ubg"])
    rows = np.nonzero(iseq & sens[:, dep].any(axis=1))[0]
    if len(rows) != len(dep):
        raise HarnessInconclusive("dynamic rows (%d) and dependent variables (%d) do not match" % (len(rows), len(dep)))
    G = ca.Function("G", [nlp.x, nlp.p], [opti.g[rows.tolist()] - opti.lbg[rows.tolist()], ca.jacobian(opti.g[rows.tolist()], nlp.x)[:, dep.tolist()]])
    for it in range(30):
        g, J = G(x, nlp.p0)
        g = DMa(g).reshape(-1)
        nrm = np.max(np.abs(g)) if len(g) else 0.0
        if nrm < 1e-12:
            return x
        try:
            dx = np.linalg.solve(np.array(ca.DM(J)), g)
        except np.linalg.LinAlgError:
            raise HarnessInconclusive("singular Newton matrix")
        x[dep] -= dx
    if nrm < 1e-10:
        return x
    raise HarnessInconclusive("Newton did not converge")


def check_dae(case, ctx):
    """Interpolation identities only (no feasibility needed): within a step the state is the degree-d polynomial through the step's start
    value and its d collocation values, an algebraic value the degree-(d-1) polynomial through its d collocation values."""
    sp = copy.deepcopy(case["spec"])
    m = sp["method"]
    N, M, r, d = m["N"], m["M"], case["refine"], m["degree"]
    rng = np.random.default_rng(case["rng"])
    feats = {"method": "DC", "scheme": "%s-%d" % (m["scheme"], d), "tgrid": m["grid"]["cls"], "kind": "dae", "M>1": M > 1}
    sp["objective"] = gen.activation_objective(sp)
    B = build(sp)
    ocp = B.ocp
    nlp = NLP(ocp)
    xall = ca.vertcat(*[ca.vec(B.syms[dd["name"]]) for dd in sp["states"]])
    zall = ca.vertcat(*[ca.vec(B.syms[dd["name"]]) for dd in sp["algebraics"]])
    e_mx = E.to_ca(case["expr"], B, ocp)
    probes = obs.stage_probes(B, "main", dc=False, intg=True)
    t_r, xz_r = ocp.sample(ca.vertcat(xall, zall), grid="integrator", refine=r)
    probes.update({"t_r": t_r, "xz_r": xz_r, "e_r": ocp.sample(e_mx, grid="integrator", refine=r)[1], "x_i": ocp.sample(xall, grid="integrator")[1],
                   "x_roots": ocp.sample(xall, grid="integrator_roots")[1], "z_roots": ocp.sample(zall, grid="integrator_roots")[1], "gist": ocp.gist})
    nlp.add_all(probes)
    tl = time_like_vars(nlp, [probes["main|tk"], probes["main|T"]])
    res = nlp.eval(random_points(nlp, rng, 1, time_like=tl)[0])
    tk, ti = res["main|tk"].reshape(-1), res["main|ti"].reshape(-1)
    T, t0 = float(res["main|T"].reshape(-1)[0]), float(res["main|t0"].reshape(-1)[0])
    nx = res["x_i"].shape[0]
    col = ref.Colloc(d, m["scheme"])
    zb = ref.lagrange_basis(col.tau)
    R = ref.StageRef(sp)
    data = ref.override_params(obs.unpack(res, "main"), sp, N)
    tr = ref.Traj(R, data, M)

    def at(t, step=None):
        if step is None:
            step = max(min(int(np.searchsorted(ti, t, side="right") - 1), N * M - 1), 0)
        s_ = (t - ti[step]) / (ti[step + 1] - ti[step])
        Xc = np.column_stack([res["x_i"][:, step], res["x_roots"][:, step * d:(step + 1) * d]])
        Zc = res["z_roots"][:, step * d:(step + 1) * d]
        return col.interp(Xc, s_), sum(Zc[:, j] * zb[j](s_) for j in range(d)), step

    def expr_at(t, xv, zv, step):
        k = min(step // M, N - 1)
        vals = dict(tr.base_vals(k, node=k))
        R.split(R.states + R.qstates, xv, vals)
        for dd in sp["algebraics"]:
            vals[dd["name"]] = zv
        return E.ev(case["expr"], E.Env(vals, t=t, T=T, t0=t0))
    fails = []
    tr_ = res["t_r"].reshape(-1)
    for j in range(len(tr_) - 1):            # the final point closes the last step
        # at an arbitrary (infeasible) decision vector neighbouring steps do not join: a refined point belongs to the step it was generated for
        xv, zv, step = at(tr_[j], step=j // r)
        if not close(res["xz_r"][:nx, j], xv, 1e-8, 1e-9):
            fails.append(Fail("dae-refined-state", feats, {"point": j, "sampled": res["xz_r"][:nx, j], "interpolant": xv}))
            break
        if not close(res["xz_r"][nx:, j], zv, 1e-8, 1e-9):
            fails.append(Fail("dae-refined-algebraic", feats, {"point": j, "sampled": res["xz_r"][nx:, j], "interpolant": zv}))
            break
        we = expr_at(tr_[j], xv, zv, step)
        if np.isfinite(we) and not close(float(res["e_r"][0, j]), we, 1e-7, 1e-8):
            fails.append(Fail("dae-refined-expression", feats, {"point": j, "sampled": res["e_r"][:, j], "reference": we}))
            break
    if fails:
        return fails
    try:
        smp = ocp.sampler([xall, zall, e_mx])
    except Exception as ex:
        return [Fail("sampler-exception", feats, {"message": str(ex)[:150]})]
    gist = res["gist"].reshape(-1)
    qt = [tk[0] + f * (tk[-1] - tk[0]) for f in case["fractions"][:-1]]
    qt = [t for t in qt if t == tk[0] or np.min(np.abs(ti - t)) > 1e-9 * (1 + abs(t))]      # (strictly inside a step, for the same reason)
    for t in qt:
        out = smp(gist, float(t))
        xv, zv, step = at(t)
        if not close(np.array(out[0]).reshape(-1), xv, 1e-7, 1e-8):
            fails.append(Fail("sampler-vs-polynomial", feats, {"t": t, "sampler": np.array(out[0]).reshape(-1), "polynomial": xv}))
            break
        if not close(np.array(out[1]).reshape(-1), zv, 1e-7, 1e-8):
            fails.append(Fail("dae-sampler-algebraic", feats, {"t": t, "fraction": (t - tk[0]) / (tk[-1] - tk[0]), "step": step, "sampler": np.array(out[1]).reshape(-1), "interpolant": zv}))
            break
        we = expr_at(t, xv, zv, step)
        if np.isfinite(we) and not close(float(np.array(out[2]).reshape(-1)[0]), we, 1e-6, 1e-7):
            fails.append(Fail("dae-sampler-expression", feats, {"t": t, "sampler": float(np.array(out[2]).reshape(-1)[0]), "reference": we}))
            break
    ctx.count("dae_cases")
    ctx.count("sampler_queries", len(qt))
    return fails


def check(case, ctx):
    if case["kind"] == "dae":
        return check_dae(case, ctx)
    sp = copy.deepcopy(case["spec"])
    m = sp["method"]
    N, M, r = m["N"], m["M"], case["refine"]
    dc = m["cls"] == "DC"
    deg = scheme_degree(m)
    rng = np.random.default_rng(case["rng"])
    feats = {"method": m["cls"], "scheme": m.get("intg") or "%s-%d" % (m["scheme"], m["degree"]), "tgrid": m["grid"]["cls"], "kind": case["kind"], "M>1": M > 1}
    sp["objective"] = gen.activation_objective(sp)
    B = build(sp)
    ocp = B.ocp
    nlp = NLP(ocp)
    probes = obs.stage_probes(B, "main", dc=dc, intg=True)
    xnames = [d["name"] for d in sp["states"]]
    xall = ca.vertcat(*[ca.vec(B.syms[n]) for n in xnames])
    e_mx = E.to_ca(case["expr"], B, ocp)
    tr_r, xr_r = ocp.sample(xall, grid="integrator", refine=r)
    tr_f, xr_f = ocp.sample(xall, grid="integrator", refine=RFIT)
    _, er_r = ocp.sample(e_mx, grid="integrator", refine=r)
    _, ei = ocp.sample(e_mx, grid="integrator")
    probes.update({"t_r": tr_r, "x_r": xr_r, "t_f": tr_f, "x_f": xr_f, "e_r": er_r, "e_i": ei, "x_i": ocp.sample(xall, grid="integrator")[1], "x_c": ocp.sample(xall, grid="control")[1]})
    if dc:
        probes["x_roots"] = ocp.sample(xall, grid="integrator_roots")[1]
    probes["gist"] = ocp.gist
    nlp.add_all(probes)
    x = feasible_point(nlp, B, probes, m["cls"], rng)
    res = nlp.eval(x)
    fails = []
    tk = res["main|tk"].reshape(-1)
    ti = res["main|ti"].reshape(-1)
    t_r, x_r, t_f, x_f = res["t_r"].reshape(-1), res["x_r"], res["t_f"].reshape(-1), res["x_f"]
    x_i, x_c = res["x_i"], res["x_c"]
    nx = x_i.shape[0]
    T, t0 = float(res["main|T"].reshape(-1)[0]), float(res["main|t0"].reshape(-1)[0])
    # (a) subsampling identities
    if t_r.shape[0] != N * M * r + 1 or x_r.shape[1] != N * M * r + 1:
        fails.append(Fail("refined-length", feats, {"len": int(t_r.shape[0]), "expected": N * M * r + 1}))
        return fails
    if not close(t_r[::r], ti, 1e-11, 1e-12) or not close(x_r[:, ::r], x_i, 1e-10, 1e-11):
        fails.append(Fail("refine-subsampling", feats, {"refine": r, "max_dx": float(np.max(np.abs(x_r[:, ::r] - x_i))), "max_dt": float(np.max(np.abs(t_r[::r] - ti)))}))
    if not close(ti[::M], tk, 1e-11, 1e-12) or not close(x_i[:, ::M], x_c, 1e-10, 1e-11):
        fails.append(Fail("integrator-subsampling", feats, {"max_dx": float(np.max(np.abs(x_i[:, ::M] - x_c)))}))
    if not close(res["e_r"][:, ::r], res["e_i"], 1e-9, 1e-10):
        fails.append(Fail("refine-subsampling-expression", feats, {"refine": r}))
    if fails:
        return fails
    # (b) one polynomial per integrator step
    R = ref.StageRef(sp)
    data = ref.override_params(obs.unpack(res, "main"), sp, N)
    tr = ref.Traj(R, data, M)
    col = ref.Colloc(m["degree"], m["scheme"]) if dc else None
    polys = []
    for k in range(N):
        dt = (tk[k + 1] - tk[k]) / M
        base = tr.base_vals(k, node=k)
        for l in range(M):
            step = k * M + l
            sl = slice(step * RFIT, step * RFIT + RFIT)
            s = (t_f[sl] - ti[step]) / dt
            if not close(s, np.arange(RFIT) / RFIT, 1e-9, 1e-10):
                fails.append(Fail("refined-times", feats, {"step": step, "local": s}))
                return fails
            cf = [P.polyfit(s, x_f[i, sl], deg) for i in range(nx)]
            resid = max(np.max(np.abs(P.polyval(s, cf[i]) - x_f[i, sl])) for i in range(nx))
            scale_ = 1 + np.max(np.abs(x_f[:, sl]))
            if resid > 1e-8 * scale_:
                fails.append(Fail("step-not-polynomial", feats, {"step": step, "degree": deg, "residual": resid}))
                return fails
            polys.append((ti[step], dt, cf))
            start = np.array([P.polyval(0.0, c) for c in cf])
            end = np.array([P.polyval(1.0, c) for c in cf])
            if not close(start, x_i[:, step], 1e-8, 1e-9):
                fails.append(Fail("step-start", feats, {"step": step, "poly": start, "state": x_i[:, step]}))
            if not close(end, x_i[:, step + 1], 1e-7, 1e-8):
                fails.append(Fail("step-end-continuity", feats, {"step": step, "poly_end": end, "next_start": x_i[:, step + 1]}))
            if not dc:
                f0, _ = R.rhs(x_i[:, step], base, ti[step], T=T, t0=t0)
                slope = np.array([P.polyval(0.0, P.polyder(c)) for c in cf]) / dt
                if not close(slope, f0, 1e-7, 1e-8):
                    fails.append(Fail("initial-slope", feats, {"step": step, "slope": slope, "rhs": f0}))
            else:
                d_ = m["degree"]
                for j in range(d_):
                    hj = res["x_roots"][:, step * d_ + j]
                    pj = np.array([P.polyval(col.tau[j], c) for c in cf])
                    if not close(pj, hj, 1e-7, 1e-8):
                        fails.append(Fail("helper-state-on-polynomial", feats, {"step": step, "j": j, "poly": pj, "helper": hj}))
                        break
                    fj, _ = R.rhs(hj, base, ti[step] + col.tau[j] * dt, T=T, t0=t0)
                    sj = np.array([P.polyval(col.tau[j], P.polyder(c)) for c in cf]) / dt
                    if not close(sj, fj, 1e-6, 1e-7):
                        fails.append(Fail("collocation-slope", feats, {"step": step, "j": j, "slope": sj, "rhs": fj}))
                        break
            # the r-refined values lie on the same polynomial
            slr = slice(step * r, step * r + r)
            sr = (t_r[slr] - ti[step]) / dt
            want = np.array([P.polyval(sr, c) for c in cf])
            if not close(x_r[:, slr], want, 1e-7, 1e-8):
                fails.append(Fail("refined-values-off-polynomial", feats, {"step": step, "refine": r}))
            if fails:
                return fails
    ctx.count("steps_checked", N * M)
    # (c) sampler
    gist = res["gist"].reshape(-1)

    def poly_at(t):
        step = min(int(np.searchsorted(ti, t, side="right") - 1), N * M - 1)
        step = max(step, 0)
        t_s, dt, cf = polys[step]
        return np.array([P.polyval((t - t_s) / dt, c) for c in cf]), step
    try:
        smp = ocp.sampler([xall, e_mx])
    except Exception as ex:
        fails.append(Fail("sampler-exception", feats, {"message": str(ex)[:150]}))
        return fails
    qt = [tk[0] + f * (tk[-1] - tk[0]) for f in case["fractions"]] + [float(ti[len(ti) // 2])]
    for t in qt:
        out = smp(gist, float(t))
        got = np.array(out[0]).reshape(-1)
        want, step = poly_at(t)
        if not close(got, want, 1e-7, 1e-8):
            fails.append(Fail("sampler-vs-polynomial", feats, {"t": t, "fraction": (t - tk[0]) / (tk[-1] - tk[0]), "sampler": got, "polynomial": want}))
            break
        k = min(step // M, N - 1)
        vals = dict(tr.base_vals(k, node=k))
        R.split(R.states + R.qstates, want, vals)
        want_e = E.ev(case["expr"], E.Env(vals, t=t, T=T, t0=t0))
        got_e = float(np.array(out[1]).reshape(-1)[0])
        if np.isfinite(want_e) and not close(got_e, want_e, 1e-6, 1e-7):
            fails.append(Fail("sampler-expression", feats, {"t": t, "sampler": got_e, "reference": want_e}))
            break
    # vector of times at the grid: equals sample
    out = smp(gist, ti[:-1])
    got = np.array(out[0])
    if got.shape != (len(ti) - 1, nx) and nx > 1 or not close(got.reshape(len(ti) - 1, -1), x_i[:, :-1].T, 1e-8, 1e-9):
        fails.append(Fail("sampler-vs-sample-at-grid", feats, {"shape": list(got.shape)}))
    ctx.count("sampler_queries", len(qt) + len(ti) - 1)
    # (d) exactness on polynomial solutions
    if case["kind"] == "polyode" and not fails:
        x0v = x_i[:, 0]
        # integrate the polynomial right-hand side analytically
        exact = []
        idx = 0
        for name, exprs in sp["der"]:
            for e in exprs:
                # coefficients of the polynomial in t: evaluate at deg+2 points and fit (exact)
                tt = np.linspace(-1, 2, 8)
                vv = [E.ev(e, E.Env({}, t=float(a))) for a in tt]
                c = P.polyfit(tt, vv, 6)
                exact.append(P.polyint(c))
                idx += 1
        worst = 0.0
        for j, t in enumerate(t_f):
            for i in range(nx):
                want = x0v[i] + P.polyval(t, exact[i]) - P.polyval(t_f[0], exact[i])
                worst = max(worst, abs(want - x_f[i, j]))
        if worst > 1e-7:
            fails.append(Fail("polynomial-solution-not-exact", feats, {"max_error": worst, "solution_degree": {"expl_euler": 1, "rk": 2}.get(m.get("intg"), m.get("degree"))}))
        ctx.count("polyode_cases")
    return fails


TECHNIQUE = "property-based testing (Hypothesis): metamorphic subsampling identities, polynomial re-fit of refined samples with independent slope/collocation checks, sampler-vs-polynomial agreement, exactness on generated polynomial-solution ODEs"
LEVEL_TEXT = ("Generated-input exploration at dynamically feasible points (Newton on the NLP's own rows): subsampling identities between control/integrator/refined grids, one polynomial of the scheme's degree "
              "per step with start/end/slope/collocation conditions evaluated by the numpy reference right-hand side, sampler(gist,t) against that polynomial at arbitrary times, exact reproduction of polynomial solutions.")
LEVEL_NOTE = "Trusted: CasADi evaluation, numpy polyfit (8 points, degree <= 5), Newton convergence threshold 1e-11."
