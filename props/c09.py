"""C09 - a parametric OCP is the family of OCPs with the values written in."""
import copy
import numpy as np
import casadi as ca
from hypothesis import strategies as st

from vlib import gen, ref, obs
from vlib import expr as E
from vlib.build import build, apply_value, apply_initial, make_method
from vlib.core import Fail, HarnessInconclusive
from vlib.nlp import NLP, Rows, diff_rows, close, time_like_vars, random_points, summarize_diff, DMa
from props import c04, c05

ID = "C09"
LEVEL = "exploration"
BUDGET = {"quick": (8, 45), "thorough": (16, 1000)}
K = 3
RULE = ("Generated OCP (all sampling methods, grids) with global scalar/vector/matrix, per-interval (control), per-node (control with include_last) and horizon parameters appearing in "
        "dynamics, objective terms, constraint bodies and bounds and in an initial guess; a generated history of set_value calls interleaved with queries, limited solves and re-transcriptions (the same method given again). Oracles: "
        "(i) f, constraint-row multiset and starting point equal those of the same spec with global/horizon parameters replaced by constants (differential); (ii) objective and constraint "
        "instances with per-interval columns equal the reference model using column k on interval k and the extra column at the final node; (iii) after the history, parameter vector and NLP "
        "data equal those of a fresh build with the final values. Non-trivial = per-interval, matrix or horizon parameter, or a set_value after transcription; distinct = SHA-1 of case JSON.")
ASSUMPTIONS = ["a spec and its constant-substituted twin create decision variables in the same order (checked by count; activation objective keeps every variable in the NLP)"]


def subst(e, table):
    """Replace ['sym', name, i] by constants for names in table (name -> flat values)."""
    if e[0] == "sym" and e[1] in table:
        return E.C(table[e[1]][e[2]])
    if e[0] in E.UNARY or e[0] in E.PLACEHOLDERS or e[0] in ("off",):
        return [e[0], subst(e[1], table)] + list(e[2:])
    if e[0] in E.BINARY:
        return [e[0], subst(e[1], table), subst(e[2], table)]
    return e


def constant_twin(sp):
    """Spec with global (and horizon) parameters written in as numbers."""
    tw = copy.deepcopy(sp)
    table = {}
    for d in sp["params"]:
        if d.get("grid", "") == "":
            V = np.array(d["value"], dtype=float).reshape(d["rows"], d["cols"])
            table[d["name"]] = V.flatten(order="F")
    tw["params"] = [d for d in tw["params"] if d["name"] not in table]
    for key in ("der", "next"):
        if key in tw:
            tw[key] = [[n, [subst(e, table) for e in ex]] for n, ex in tw[key]]
    if "alg" in tw:
        tw["alg"] = [[subst(e, table) for e in a] for a in tw["alg"]]
    tw["objective"] = [subst(e, table) for e in tw.get("objective", [])]
    for c in tw.get("constraints", []):
        for k in ("lhs", "rhs", "lb", "ub"):
            if k in c:
                c[k] = [subst(e, table) for e in c[k]]
    ini = []
    for name, g in tw.get("initial", []):
        if g[0] == "expr":
            g = ["expr", [subst(e, table) for e in g[1]], g[2], g[3]]
        ini.append([name, g])
    tw["initial"] = ini
    for key in ("T", "t0"):
        if tw[key][0] == "par":
            tw[key] = ["num", float(table[tw[key][1]][0])]
    return tw


@st.composite
def strategy_(draw):
    tk = {"max_params": 3, "matrix_interval_params": True}
    sp = draw(gen.base_ocp(table_kw=tk))
    if not sp["params"]:
        sp["params"].append({"name": "p0", "rows": 1, "cols": 1, "grid": draw(st.sampled_from(["", "control", "control+"]))})
        gen.fill_param_values(draw, sp, sp["method"]["N"])
        # make it appear somewhere
    # horizon parameter values must be sane horizons: keep the value given by the horizon strategy
    for d in sp["params"]:
        if d["name"].startswith("hp_"):
            d["value"] = [[draw(st.sampled_from([0.5, 1.0, 1.5] if d["name"] == "hp_T" else [0.0, 0.5, -1.0]))]]
    sp["objective"] = [draw(c05.objective_term(sp)) for _ in range(draw(st.integers(1, 2)))]
    pl = gen.leaves_of(sp["params"])
    sig = gen.signal_leaves(sp, with_params=False)
    # guarantee that parameters appear in the objective and in a bound
    pe = draw(st.sampled_from(pl))
    sp["objective"].append(["sump", ["*", pe, draw(st.sampled_from(sig))]])
    cons = [draw(c04.constraint(sp, allow_roots=False)) for _ in range(draw(st.integers(0, 2)))]
    tsig = gen.leaves_of([d for d in sp["states"] if not d.get("quad")]) + gen.leaves_of(sp["controls"])
    cons.append({"lhs": [draw(st.sampled_from(tsig))], "rel": draw(st.sampled_from(["<=", ">="])), "rhs": [["+", draw(st.sampled_from(pl)), E.C(draw(gen.small()))]], "grid": None,
                 "include_first": True, "include_last": True})
    sigp_ = gen.leaves_of([d for d in sp["params"] if d.get("grid", "") != ""])
    if sigp_ and draw(st.booleans()):
        # per-interval / per-node parameters reached through a shifted operand: which column applies at the shifted node
        # (for include_last parameters the extra column at the final node)
        o = draw(st.sampled_from([o for o in (1, 1, -1, 2) if abs(o) <= sp["method"]["N"]]))
        node = ["off", ["-", draw(st.sampled_from(tsig)), draw(st.sampled_from(sigp_))], o] + (["next"] if o == 1 and draw(st.booleans()) else [])
        cons.append({"lhs": [["+", ["*", E.C(draw(c04.lead_coef())), draw(st.sampled_from(tsig))], node]], "rel": draw(st.sampled_from(["<=", "==", ">="])),
                     "rhs": [E.C(draw(gen.small()))], "grid": None, "include_first": True, "include_last": True})
    sp["constraints"] = cons
    # A horizon start of exactly 0 written in as a constant makes CasADi drop a product `prev(x)*t0` from a constraint, and with it the
    # exclusion of the first node: the twin would be a different problem by construction, not by a defect. Keep t0 != 0 there.
    off_t0 = any(E.has_op(e, "off") and "hp_t0" in E.syms_in(e) for c in cons for k in ("lhs", "rhs", "lb", "ub") for e in c.get(k, []))
    t0_values = [0.25, 0.5, -1.0] if off_t0 else [0.0, 0.5, -1.0]
    for d in sp["params"]:
        if d["name"] == "hp_t0" and d["value"][0][0] not in t0_values:
            d["value"] = [[draw(st.sampled_from(t0_values))]]
    gp = gen.leaves_of([d for d in sp["params"] if d.get("grid", "") == "" and not d["name"].startswith("hp_")])
    sp["initial"] = []
    xs = [d for d in sp["states"] if not d.get("quad") and d["cols"] == 1]   # set_initial is documented for n-by-1 symbols
    if gp and xs and draw(st.booleans()):
        x = xs[0]
        n = x["rows"] * x["cols"]
        sp["initial"].append([x["name"], ["expr", [["+", draw(st.sampled_from(gp)), ["*", E.C(0.5), ["t"]]] for _ in range(n)], x["rows"], x["cols"]]])
    # history of value updates
    ops = []
    for _ in range(draw(st.integers(0, 5))):
        kind = gen.weighted(draw, [("set", 5), ("query", 2), ("solve", 1), ("remethod", 2), ("guess", 1)])
        if kind == "guess":
            # an initial guess issued in between: must not disturb any parameter value
            gs = [d for d in sp["controls"] + [x_ for x_ in sp["states"] if not x_.get("quad")] if d["cols"] == 1 and not (sp["method"]["cls"] == "DC" and d in sp["states"])]
            if gs:
                ops.append(["guess", draw(st.sampled_from(gs))["name"], draw(gen.small())])
            continue
        if kind == "set":
            d = draw(st.sampled_from(sp["params"]))
            g = d.get("grid", "")
            N = sp["method"]["N"]
            ncol = d["cols"] * (1 if g == "" else (N if g == "control" else N + 1))
            if d["name"].startswith("hp_"):
                val = [[draw(st.sampled_from([0.5, 1.0, 1.5, 2.0] if d["name"] == "hp_T" else t0_values))]]
            else:
                val = [[draw(gen.small()) for _ in range(ncol)] for _ in range(d["rows"])]
            ops.append(["set", d["name"], val])
        else:
            ops.append([kind])
    gs_ = [d for d in sp["controls"] if d["cols"] == 1]
    plain = [d for d in sp["params"] if not d["name"].startswith("hp_")]
    if gs_ and plain and draw(st.integers(0, 2)) == 0:
        # transcribe, update a parameter, then issue an unrelated initial guess: the guess must not bring old parameter values back
        d = draw(st.sampled_from(plain))
        g = d.get("grid", "")
        ncol = d["cols"] * (1 if g == "" else (sp["method"]["N"] if g == "control" else sp["method"]["N"] + 1))
        ops += [["query"], ["set", d["name"], [[draw(gen.small()) for _ in range(ncol)] for _ in range(d["rows"])]], ["guess", gs_[0]["name"], draw(gen.small())]]
    sigp = [d for d in sp["params"] if d.get("grid", "") != ""]
    if sigp and draw(st.integers(0, 2)) == 0:
        # the MPC pattern followed by a re-transcription: transcribe, update a per-interval parameter, give the method again
        d = draw(st.sampled_from(sigp))
        ncol = d["cols"] * (sp["method"]["N"] + (1 if d["grid"] == "control+" else 0))
        ops += [["query"], ["set", d["name"], [[draw(gen.small()) for _ in range(ncol)] for _ in range(d["rows"])]], ["remethod"]]
    return {"spec": sp, "ops": ops, "rng": draw(st.integers(0, 2**31 - 1))}


def strategy(tier):
    return strategy_()


def param_kinds(sp):
    ks = set()
    for d in sp["params"]:
        g = d.get("grid", "")
        if d["name"].startswith("hp_"):
            ks.add("horizon")
        elif g == "":
            ks.add("global-matrix" if d["cols"] > 1 else "global")
        else:
            ks.add(("per-interval" if g == "control" else "per-node") + ("-matrix" if d["cols"] > 1 else ""))
    return ks


def nontrivial(case):
    ks = param_kinds(case["spec"])
    seen_q = False
    late = False
    for op in case["ops"]:
        if op[0] in ("query", "solve"):
            seen_q = True
        elif op[0] == "set" and seen_q:
            late = True
    return bool(ks - {"global"}) or late


def classify(case):
    labs = ["method:" + case["spec"]["method"]["cls"]] + ["param:" + k for k in sorted(param_kinds(case["spec"]))]
    if any(op[0] == "solve" for op in case["ops"]):
        labs.append("history:solve")
    seen_q = late = False
    for op in case["ops"]:
        if op[0] in ("query", "solve"):
            seen_q = True
        elif op[0] == "set" and seen_q:
            late = True
        elif op[0] == "remethod" and late:
            labs.append("history:set-after-transcription-then-retranscribed")
            break
    seen_q = False
    for op in case["ops"]:
        if op[0] in ("query", "solve"):
            seen_q = True
        elif op[0] == "set" and seen_q:
            labs.append("history:set-after-transcription")
            break
    return sorted(set(labs))


def abbreviate(case):
    sp = case["spec"]
    return {"method": sp["method"], "T": sp["T"], "t0": sp["t0"], "params": sp["params"], "ops": case["ops"], "constraints": sp["constraints"][-1:], "rng": case["rng"]}


def stale_guess_feature(sp, ops):
    """True when a parameter on which the starting point depends is changed after the first transcription."""
    deps = set()
    time_dep = False
    for name, g in sp.get("initial", []):
        if g[0] == "expr":
            for e in g[1]:
                deps |= E.syms_in(e)
                time_dep = time_dep or E.has_op(e, "t")
    grid = sp["method"]["grid"]
    if grid.get("localize_t0") or grid.get("localize_T") or grid.get("cls") == "free" or time_dep:
        deps |= {d["name"] for d in sp["params"] if d["name"].startswith("hp_")}
    seen_q = stale = False
    for op in ops:
        if op[0] in ("query", "solve"):
            seen_q = True
        elif op[0] == "guess":
            pass
        elif op[0] == "remethod":
            seen_q = stale = False      # the next transcription evaluates every guess anew
        elif seen_q and op[1] in deps:
            stale = True
    return stale


def final_values(sp, ops):
    sp2 = copy.deepcopy(sp)
    for op in ops:
        if op[0] == "guess":
            sp2["initial"] = [it for it in sp2.get("initial", []) if it[0] != op[1]] + [[op[1], ["num", op[2]]]]
        if op[0] == "set":
            for d in sp2["params"]:
                if d["name"] == op[1]:
                    d["value"] = op[2]
    return sp2


def check(case, ctx):
    sp = copy.deepcopy(case["spec"])
    m = sp["method"]
    if any(c04.degenerate(c, {d["name"] for d in sp["params"]}) for c in sp["constraints"]):
        ctx.count("shifted_operand_cancels_symbolically")
        return []
    N, M = m["N"], m["M"]
    dc = m["cls"] == "DC"
    rng = np.random.default_rng(case["rng"])
    feats = {"method": m["cls"], "kinds": sorted(param_kinds(sp))}
    sp["objective"] = sp["objective"] + gen.activation_objective(sp)
    sp["solver"] = ["ipopt", {"ipopt.max_iter": 2}]
    fails = []
    # ---- evolve the OCP through the history
    B = build(sp)
    ocp = B.ocp
    for op in case["ops"]:
        if op[0] == "set":
            apply_value(B, ocp, op[1], op[2])
        elif op[0] == "query":
            ocp.sample(B.syms[sp["states"][0]["name"]], grid="control")
        elif op[0] == "guess":
            apply_initial(B, ocp, [op[1], ["num", op[2]]])
        elif op[0] == "remethod":
            # the same method given again: the next query transcribes anew and must see the values set so far
            ocp.method(make_method(sp["method"]))
        elif op[0] == "solve":
            try:
                ocp.solve_limited()
            except Exception as ex:
                raise HarnessInconclusive("limited solve failed: %s" % str(ex)[:60])
    spF = final_values(sp, case["ops"])
    nA = NLP(ocp)
    probes = obs.stage_probes(B, "main", dc=dc, intg=True)
    nA.add_all(probes)
    # ---- (iii) fresh build with the final values
    BF = build(spF)
    nF = NLP(BF.ocp)
    if nA.nx != nF.nx or nA.np_ != nF.np_:
        raise HarnessInconclusive("variable/parameter count differs between evolved and fresh")
    if not close(nA.p0, nF.p0, rtol=0, atol=0):
        fails.append(Fail("history-parameter-vector", feats, {"evolved": nA.p0, "fresh": nF.p0, "ops": case["ops"]}))
    if not close(nA.x0, nF.x0, rtol=1e-12, atol=1e-12):
        fails.append(Fail("history-starting-point", dict(feats, guess_param_changed_after_transcription=stale_guess_feature(sp, case["ops"])), {"evolved": nA.x0, "fresh": nF.x0, "ops": case["ops"]}))
    # ---- (i) constants written in
    tw = constant_twin(spF)
    if any(c04.degenerate(c) for c in tw["constraints"]):
        # with the values written in, a factor of a shifted operand is exactly zero (e.g. (0.5 + p)*prev(x) with p = -0.5): CasADi drops
        # the operand and with it the exclusion of the nodes it reaches outside the horizon; the twin is a different problem by construction
        ctx.count("twin_loses_a_shifted_operand")
        return fails
    BT = build(tw)
    nT = NLP(BT.ocp)
    if nT.nx != nA.nx:
        raise HarnessInconclusive("variable count differs between parametric and constant twin")
    tl = time_like_vars(nA, [probes["main|tk"], probes["main|T"]])
    X = random_points(nA, rng, K, time_like=tl)
    evA, evT, evF = [], [], []
    R = ref.StageRef(spF)
    col = ref.Colloc(m["degree"], m["scheme"]) if dc else None
    scheme = "set_next" if spF.get("next") else m.get("intg")
    nobj = len(case["spec"]["objective"])
    act = spF["objective"][nobj:]
    for i in range(K):
        ra, rt, rf = nA.eval(X[i]), nT.eval(X[i]), nF.eval(X[i])
        evA.append(ra)
        evT.append(rt)
        evF.append(rf)
        if not close(ra["f"], rt["f"], rtol=1e-9, atol=1e-10):
            fails.append(Fail("objective-vs-constants", feats, {"parametric": ra["f"], "constants": rt["f"]}))
            break
        if not close(ra["f"], rf["f"], rtol=1e-12, atol=1e-12):
            fails.append(Fail("history-objective", feats, {"evolved": ra["f"], "fresh": rf["f"]}))
            break
        # (ii) reference model with per-interval columns
        data = ref.override_params(obs.unpack(ra, "main"), spF, N)
        tr = ref.Traj(R, data, M)

        def integral(t, integrand):
            return ref.collocation_integral(t, data, col, integrand) if dc else ref.shooting_integral(t, scheme, integrand)
        want = float(sum(ref.ev_top(t, tr, integral) for t in spF["objective"]))
        if np.isfinite(want) and not close(ra["f"], want, rtol=1e-9, atol=1e-9):
            fails.append(Fail("objective-vs-reference", feats, {"nlp_f": ra["f"], "reference": want}))
            break
    ctx.count("numeric_points", K)
    rowsA, rowsT, rowsF = Rows.from_evals(evA), Rows.from_evals(evT), Rows.from_evals(evF)
    d = diff_rows(rowsA, rowsT, rtol=1e-8, atol=1e-9)
    if any(d.values()):
        fails.append(Fail("rows-vs-constants", feats, summarize_diff(d)))
    d = diff_rows(rowsA, rowsF, rtol=1e-10, atol=1e-11)
    if any(d.values()):
        fails.append(Fail("history-rows", feats, summarize_diff(d)))
    if not close(nT.x0, nF.x0, rtol=1e-12, atol=1e-12):
        fails.append(Fail("starting-point-vs-constants", feats, {"parametric": nF.x0, "constants": nT.x0}))
    # (ii) declared constraints with per-interval operands/bounds: instances from the reference must be present
    if not fails:
        for ci, c in enumerate(spF["constraints"]):
            exp = Rows()
            lists = []
            for i in range(K):
                data = ref.override_params(obs.unpack(evA[i], "main"), spF, N)
                tr = ref.Traj(R, data, M)
                envs = {"control": ref.grid_envs(tr, data, "control"), "integrator": ref.grid_envs(tr, data, "integrator")}
                lists.append(c04.instance_slacks(c, envs, tr, N, M))
            for j in range(len(lists[0])):
                vec = np.array([lists[i][j][1] for i in range(K)])
                (exp.add_eq if lists[0][j][0] == "e" else exp.add_ineq)(vec)
            from vlib.nlp import subtract_rows
            _, missing = subtract_rows(rowsA, exp, rtol=1e-8, atol=1e-9)
            if missing.count():
                fails.append(Fail("constraint-instances-vs-reference", dict(feats, **c04.con_features(c, spF)), {"constraint": ci, "missing": missing.count(), "expected": exp.count()}))
    return fails


def judge_exception(case, exc, fail):
    return "violation"


TECHNIQUE = "property-based testing (Hypothesis): differential (parameters vs constants written in), reference model for per-interval columns, generated set_value histories vs fresh build"
LEVEL_TEXT = ("Generated-input exploration with three oracles: a differential twin with the global/horizon values written in as constants, the numpy reference model for per-interval and per-node "
              "columns in objective and constraints, and equality of the evolved OCP (after a generated history of set_value/query/solve) with a freshly built one carrying the final values.")
LEVEL_NOTE = "Trusted: CasADi evaluation; identical variable order of twin transcriptions (checked by count)."
