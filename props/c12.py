"""C12 - stages compose without interference and clones equal their template."""
import copy
import numpy as np
import casadi as ca
from hypothesis import strategies as st

from vlib import gen, ref, obs
from vlib import expr as E
from vlib.build import build
from vlib.core import Fail, HarnessInconclusive
from vlib.nlp import NLP, Rows, Dictionary, diff_rows, subtract_rows, close, time_like_vars, random_points, summarize_diff
from props import c04, c05, c11

ID = "C12"
LEVEL = "exploration"
BUDGET = {"quick": (8, 25), "thorough": (16, 800)}
K = 2
RULE = ("Two generated families. compose: an Ocp with 1-3 generated stages (own model, method, grid, N, fixed/free horizon, objective with integrals of t-dependent integrands, constraints), a parent-level "
        "variable, coupling constraints (state continuity with parent variable, tf==t0; continuity declared on the parent or on either stage it connects) and parent objective; every stage is also built alone; decision vectors are transported stage-wise through variable "
        "dictionaries; oracle: f == sum of stage f + reference-evaluated parent terms, rows == union of stage rows + reference coupling rows. clone: a generated template (quadrature state, t in ODE and "
        "integrand, parameters, constraints, guesses) instantiated 1-3 times with/without overridden t0/T and one edited clone, versus the same content declared directly; oracle: equal f, row multiset, "
        "start point, parameter vector; template's declared lists unchanged. Non-trivial = >= 2 stages or a clone of a template with integral/quadrature/t; distinct = SHA-1 of case JSON.")
ASSUMPTIONS = ["clone-based and directly declared composites create decision variables in the same order (dimension mismatch is reported as a failure, order is cross-checked by equal sampled quantities)"]


def rename_expr(e, pre):
    op = e[0]
    if op == "sym":
        return ["sym", pre + e[1], e[2]]
    if op in E.UNARY or op in ("off", "der", "infder", "inert") or op in E.PLACEHOLDERS:
        return [op, rename_expr(e[1], pre)] + list(e[2:])
    if op in E.BINARY:
        return [op, rename_expr(e[1], pre), rename_expr(e[2], pre)]
    return e


def rename_spec(sp, pre, name):
    out = copy.deepcopy(sp)
    out["name"] = name
    for key in ("states", "controls", "params", "vars", "algebraics"):
        for d in out.get(key, []):
            d["name"] = pre + d["name"]
    for key in ("der", "next"):
        if key in out:
            out[key] = [[pre + n, [rename_expr(e, pre) for e in ex]] for n, ex in out[key]]
    if "alg" in out:
        out["alg"] = [[rename_expr(e, pre) for e in a] for a in out["alg"]]
    out["objective"] = [rename_expr(e, pre) for e in out.get("objective", [])]
    for c in out.get("constraints", []):
        for k in ("lhs", "rhs", "lb", "ub"):
            if k in c:
                c[k] = [rename_expr(e, pre) for e in c[k]]
    out["initial"] = [[pre + n if n not in ("T", "t0") else n, (["expr", [rename_expr(e, pre) for e in g[1]], g[2], g[3]] if g[0] == "expr" else g)] for n, g in out.get("initial", [])]
    if "der_scale" in out:
        out["der_scale"] = {pre + k: v for k, v in out["der_scale"].items()}
    for key in ("T", "t0"):
        if out.get(key) and out[key][0] == "par":
            out[key] = ["par", pre + out[key][1]]
    return out


@st.composite
def stage_spec(draw, prefix, name, quad=False, horizons=("num", "free"), allow_alg=False):
    tk = {"prefix": prefix, "max_params": 1, "max_vars": 1, "shapes": [(1, 1), (1, 1), (2, 1)]}
    sp = draw(gen.base_ocp(horizons=horizons, table_kw=tk, allow_alg=allow_alg, alg_odds=(1, 2), quad=quad, maxN=3, maxM=2, degrees=(1, 2, 3),
                           grid_kw={"classes": ("uniform", "geometric", "function"), "localize": False}))
    sp["name"] = name
    sp["objective"] = [draw(c05.objective_term(sp)) for _ in range(draw(st.integers(1, 2)))]
    sig = gen.signal_leaves(sp)
    sp["objective"].append(["int", ["*", ["t"], draw(st.sampled_from(sig))]])
    sp["constraints"] = [draw(c04.constraint(sp, allow_roots=False)) for _ in range(draw(st.integers(0, 2)))]
    sp["initial"] = []
    return sp


@st.composite
def strategy_(draw):
    kind = draw(st.sampled_from(["compose", "compose", "clone"]))
    master = {"name": "main", "states": [], "controls": [], "params": [], "vars": [], "algebraics": [], "T": ["num", 1.0], "t0": ["num", 0.0], "method": None, "objective": [], "constraints": []}
    if kind == "compose":
        n = draw(st.integers(1, 3))
        stages = [draw(stage_spec("s%d" % i, "s%d" % i)) for i in range(n)]
        master["substages"] = stages
        has_mv = draw(st.booleans())
        if has_mv:
            master["vars"] = [{"name": "mv0", "rows": 1, "cols": 1, "grid": ""}]
        has_mp = has_mv and draw(st.booleans())
        if has_mp:
            # the parent owns a parameter next to its variable
            master["params"] = [{"name": "mp0", "rows": 1, "cols": 1, "grid": "", "value": [[draw(gen.small())]]}]
        coupling, pobj = [], []
        for i in range(n - 1):
            a = gen.leaves_of([d for d in stages[i]["states"] if not d.get("quad")])[0]
            b = gen.leaves_of([d for d in stages[i + 1]["states"] if not d.get("quad")])[0]
            rhs = ["at_t0", b, "s%d" % (i + 1)]
            if has_mv and draw(st.booleans()):
                rhs = ["+", rhs, E.S("mv0")]
            cpl = {"lhs": [["-", ["at_tf", a, "s%d" % i], rhs]], "rel": "==", "rhs": [E.C(0.0)]}
            if not E.syms_in(rhs) & {"mv0"}:
                # the continuity condition may also be handed to one of the two stages it connects instead of the parent
                on = gen.weighted(draw, [(None, 3), ("s%d" % i, 1), ("s%d" % (i + 1), 1)])
                if on:
                    cpl["on"] = on
            coupling.append(cpl)
            if stages[i + 1]["t0"][0] == "free":
                coupling.append({"lhs": [["-", ["tf", "s%d" % i], ["t0", "s%d" % (i + 1)]]], "rel": "==", "rhs": [E.C(0.0)]})
        if has_mv:
            pobj.append(["sq", ["-", E.S("mv0"), E.S("mp0") if has_mp else E.C(0.5)]])
            coupling.append({"lhs": [E.S("mv0")], "rel": "<=", "rhs": [["+", E.C(2.0), ["*", E.C(0.5), E.S("mp0")]] if has_mp else E.C(2.0)]})
        for i in range(n):
            if stages[i]["T"][0] == "free" and draw(st.booleans()):
                pobj.append(["*", E.C(draw(gen.small())), ["T", "s%d" % i]])
        master["coupling"] = coupling
        master["parent_objective"] = pobj
        return {"kind": kind, "spec": master, "rng": draw(st.integers(0, 2**31 - 1))}
    tpl = draw(stage_spec("", "tpl", quad=True, horizons=("num", "free"), allow_alg=True))
    # features a clone has to carry over: scales (of states and of set_der), algebraic equations, inf_inert operands with placeholders
    plain = [d for d in tpl["states"] if not d.get("quad")]
    if tpl.get("der") and draw(st.booleans()):
        d = draw(st.sampled_from(plain))
        d["scale"] = draw(st.sampled_from([0.5, 4.0]))
        tpl["der_scale"] = {d["name"]: draw(st.sampled_from([2.0, 10.0]))}
        tpl["dyn_concat"] = False
    scalar_states = [d for d in plain if d["rows"] * d["cols"] == 1]       # grid='inf' constraints re-interpret whole scalar states only
    if scalar_states and tpl["method"]["cls"] != "DC" and tpl["method"].get("intg") == "rk" and tpl.get("der") and draw(st.integers(0, 2)) == 0:
        xl = gen.leaves_of(scalar_states)[0]
        tpl["constraints"].append({"grid": "inf", "lhs": [["-", xl, ["inert", ["at_t0", xl]]]], "rel": "<=", "rhs": [E.C(draw(st.sampled_from([0.5, 1.0])))]})
    if draw(st.booleans()):
        # constraints of three kinds on the template (control grid, boundary, integrator grid): the clone carries each on its own grid
        xl_ = gen.leaves_of(plain)[0]
        tpl["constraints"] += [{"lhs": [xl_], "rel": "<=", "rhs": [E.C(8.0)], "grid": None, "include_first": True, "include_last": True},
                               {"lhs": [["at_t0", xl_]], "rel": ">=", "rhs": [E.C(-7.0)], "grid": None},
                               {"lhs": [["*", E.C(2.0), xl_]], "rel": ">=", "rhs": [E.C(-18.0)], "grid": "integrator", "include_first": True, "include_last": True}]
    xs = [d for d in tpl["states"] if not d.get("quad") and d["cols"] == 1]
    if xs and tpl["method"]["cls"] != "DC" and draw(st.booleans()):
        tpl["initial"] = [[xs[0]["name"], ["num", draw(gen.small())]]]
    ncl = draw(st.integers(1, 3))
    clones = []
    for i in range(ncl):
        c = {"name": "c%d" % i, "template": "tpl"}
        if draw(st.booleans()):
            c["t0"] = ["num", draw(st.sampled_from([0.0, 1.0, -0.5]))]
        if draw(st.booleans()):
            c["T"] = draw(st.sampled_from([["num", 0.5], ["num", 2.0], ["free", 1.5]]))
        clones.append(c)
    edited = draw(st.integers(0, ncl))    # index of the clone that gets an extra constraint (ncl: none)
    extra = draw(c04.constraint(tpl, allow_roots=False))
    pedit = None
    if tpl["params"] and draw(st.booleans()):
        d = draw(st.sampled_from(tpl["params"]))
        pedit = [d["name"], [[draw(gen.small()) for _ in row] for row in d["value"]]]
    return {"kind": kind, "template": tpl, "clones": clones, "edited": edited, "extra": extra, "param_edit": pedit, "master": master, "rng": draw(st.integers(0, 2**31 - 1))}


def strategy(tier):
    return strategy_()


def tpl_features(tpl):
    f = []
    if any(d.get("quad") for d in tpl["states"]):
        f.append("quadrature-state")
    if any(E.has_op(e, "t") for _, ex in tpl.get("der", []) + tpl.get("next", []) for e in ex):
        f.append("t-in-dynamics")
    if any(E.has_op(e, "int") for e in tpl["objective"]):
        f.append("integral")
    if tpl.get("alg"):
        f.append("DAE")
    if tpl.get("der_scale"):
        f.append("set_der scale")
    if any(c.get("grid") == "inf" for c in tpl.get("constraints", [])):
        f.append("inf constraint with inf_inert(at_t0)")
    return f


def nontrivial(case):
    if case["kind"] == "compose":
        return len(case["spec"]["substages"]) >= 2
    return bool(tpl_features(case["template"]))


def classify(case):
    if case["kind"] == "compose":
        sp = case["spec"]
        labs = ["compose", "stages:%d" % len(sp["substages"])] + ["stage-method:" + s["method"]["cls"] for s in sp["substages"]]
        if any(s["T"][0] == "free" or s["t0"][0] == "free" for s in sp["substages"]):
            labs.append("free-time stage")
        if sp["vars"]:
            labs.append("parent variable")
        if sp["params"]:
            labs.append("parent parameter")
        if any(c.get("on") for c in sp["coupling"]):
            labs.append("coupling declared on a sub-stage")
        return sorted(set(labs))
    labs = ["clone", "clones:%d" % len(case["clones"]), "tpl-method:" + case["template"]["method"]["cls"]] + ["tpl:" + f for f in tpl_features(case["template"])]
    if any("t0" in c or "T" in c for c in case["clones"]):
        labs.append("overridden t0/T")
    if case["edited"] < len(case["clones"]):
        labs.append("edited clone")
    return sorted(set(labs))


def abbreviate(case):
    if case["kind"] == "compose":
        sp = case["spec"]
        return {"kind": "compose", "stages": [{"method": s["method"], "T": s["T"], "t0": s["t0"]} for s in sp["substages"]], "coupling": sp["coupling"], "parent_objective": sp["parent_objective"], "rng": case["rng"]}
    return {"kind": "clone", "template": {"method": case["template"]["method"], "T": case["template"]["T"], "t0": case["template"]["t0"], "states": case["template"]["states"],
                                           "objective": case["template"]["objective"][-1:]}, "clones": case["clones"], "edited": case["edited"], "rng": case["rng"]}


class MainTraj:
    """Parent level: only global variables."""

    def __init__(self, glob):
        self.d = {"glob": glob}
        self.T, self.t0 = 1.0, 0.0


def check_compose(case, ctx):
    sp = copy.deepcopy(case["spec"])
    rng = np.random.default_rng(case["rng"])
    stages = sp["substages"]
    feats = {"kind": "compose", "nstages": len(stages), "methods": [s["method"]["cls"] for s in stages]}
    for s in stages:
        s["objective"] = s["objective"] + gen.activation_objective(s)
    B = build(sp)
    nC = NLP(B.ocp)
    rawC = {}
    for s in stages:
        dc = s["method"]["cls"] == "DC"
        for k, v in c11.raw_quantities(B, dc, s["name"]).items():
            rawC[s["name"] + "|" + k] = v
    for d in sp["vars"]:
        rawC["main|glob:" + d["name"]] = B.ocp.value(B.syms[d["name"]])
    # the parent's own symbols resolve to what they were declared as: a variable to one decision variable, a parameter to its value
    for d in sp["vars"]:
        names = [q.name() for q in ca.symvar(ca.MX(B.ocp.value(B.syms[d["name"]])))]
        if not names or any("_x_" not in n for n in names):     # Opti names decision variables opti<k>_x_<i>, parameters opti<k>_p_<i>
            return [Fail("parent-variable-not-a-decision-variable", feats, {"name": d["name"], "resolves_to": names})]
    if sp["params"]:
        pv = {"pp:" + d["name"]: B.ocp.value(B.syms[d["name"]]) for d in sp["params"]}
        nC.add_all(pv)
        r0 = nC.eval(rng.uniform(-1, 1, nC.nx))
        for d in sp["params"]:
            if not close(r0["pp:" + d["name"]].reshape(-1), np.array(d["value"], dtype=float).reshape(-1), 1e-12, 1e-12):
                return [Fail("parent-parameter-value", feats, {"name": d["name"], "value()": r0["pp:" + d["name"]], "set": d["value"]})]
    dC = Dictionary(nC, rawC, rng)
    if not dC.covers():
        raise HarnessInconclusive("dictionary does not cover the composite NLP")
    probes = {}
    for s in stages:
        probes.update(obs.stage_probes(B, s["name"], dc=(s["method"]["cls"] == "DC"), intg=True))
    nC.add_all(probes)
    alone = []
    for s in stages:
        sa = copy.deepcopy(s)
        sa["name"] = "main"
        Ba = build(sa)
        na = NLP(Ba.ocp)
        da = Dictionary(na, c11.raw_quantities(Ba, s["method"]["cls"] == "DC", "main"), rng)
        if not da.covers():
            raise HarnessInconclusive("dictionary does not cover a stand-alone stage")
        alone.append((Ba, na, da))
    tl = time_like_vars(nC, [v for k, v in rawC.items() if k.endswith("|tk") or k.endswith("|T")])
    X = random_points(nC, rng, K, time_like=tl)
    fails = []
    evC = []
    ev_alone = [[] for _ in stages]
    coup = [[] for _ in range(K)]
    for i in range(K):
        rc = nC.eval(X[i])
        evC.append(rc)
        q = dC.values(X[i])
        f_sum = 0.0
        trajs = {}
        for si, s in enumerate(stages):
            Ba, na, da = alone[si]
            pre = s["name"] + "|"
            targets = {}
            for (lab, j), row in dC.index.items():
                if lab.startswith(pre) and (lab[len(pre):], j) in da.index and da.linear[da.index[(lab[len(pre):], j)]]:
                    targets[(lab[len(pre):], j)] = q[row]
            xa, res, rank = da.solve_for(targets)
            if res > 1e-9 or rank < na.nx:
                raise HarnessInconclusive("stage transport not unique/consistent")
            ra = na.eval(xa)
            ev_alone[si].append(ra)
            f_sum += ra["f"]
            data = ref.override_params(obs.unpack(rc, s["name"]), s, s["method"]["N"])
            trajs[s["name"]] = ref.Traj(ref.StageRef(s), data, s["method"]["M"])
        glob = {d["name"]: np.array([q[dC.index[("main|glob:" + d["name"], 0)]]]) for d in sp["vars"]}
        for d in sp["params"]:
            glob[d["name"]] = np.array(d["value"], dtype=float).reshape(-1)
        trajs["main"] = MainTraj(glob)
        parent = float(sum(ref.ev_top(t, trajs) for t in sp.get("parent_objective", [])))
        if not close(rc["f"], f_sum + parent, 1e-7, 1e-9):
            fails.append(Fail("objective-not-sum-of-stages", feats, {"composite": rc["f"], "sum_of_stages": f_sum, "parent_terms": parent}))
            return fails
        for c in sp.get("coupling", []):
            lhs = ref.ev_top(c["lhs"][0], trajs)
            rhs = ref.ev_top(c["rhs"][0], trajs)
            coup[i].extend(ref.slacks(c["rel"], lhs, rhs=rhs))
    ctx.count("numeric_points", K)
    rowsC = Rows.from_evals(evC)
    rest = rowsC
    for si, s in enumerate(stages):
        rest, missing = subtract_rows(rest, Rows.from_evals(ev_alone[si]), rtol=1e-7, atol=1e-9)
        if missing.count():
            fails.append(Fail("stage-rows-missing", dict(feats, stage_method=s["method"]["cls"]), {"stage": s["name"], "missing": missing.count(), "first": (missing.eq + missing.ineq)[:2]}))
    exp = Rows()
    for j in range(len(coup[0])):
        vec = np.array([coup[i][j][1] for i in range(K)])
        (exp.add_eq if coup[0][j][0] == "e" else exp.add_ineq)(vec)
    rest, missing = subtract_rows(rest, exp, rtol=1e-7, atol=1e-9)
    if missing.count():
        fails.append(Fail("coupling-rows-missing", feats, {"missing": missing.count(), "expected": exp.count()}))
    if rest.count():
        fails.append(Fail("surplus-rows", feats, {"surplus": rest.count(), "first": (rest.eq + rest.ineq)[:2]}))
    if fails:
        return fails
    # the union is taken of the stages as they are now: a term added to one stage through the stage object after the composite
    # has been transcribed shows up in the composite objective, by exactly its own value
    s_last = stages[-1]
    st_obj = B.stages[s_last["name"]]
    x_leaf = gen.leaves_of([d for d in s_last["states"] if not d.get("quad")])[0]
    term = ["*", E.C(0.75), ["at_tf", ["sq", x_leaf]]]
    B.stage = st_obj
    st_obj.add_objective(E.to_ca(term, B, st_obj))
    n2 = NLP(B.ocp)
    if n2.nx != nC.nx:
        raise HarnessInconclusive("variable count changed by an objective term")
    r2 = n2.eval(X[0])
    data = ref.override_params(obs.unpack(evC[0], s_last["name"]), s_last, s_last["method"]["N"])
    tr_last = ref.Traj(ref.StageRef(s_last), data, s_last["method"]["M"])
    want = evC[0]["f"] + float(ref.ev_top(term, tr_last))
    if not close(r2["f"], want, 1e-9, 1e-9):
        fails.append(Fail("late-stage-term-not-in-composite", feats, {"composite_after": r2["f"], "composite_before": evC[0]["f"], "expected_after": want}))
    return fails


def declared_lists(stage):
    return {"states": len(stage.states), "qstates": len(stage.qstates), "controls": len(stage.controls), "constraints": sum(len(v) for v in stage._constraints.values()),
            "objective": str(stage._objective), "initial": len(stage._initial), "param_vals": len(list(stage._param_vals.keys())),
            "variables": sum(len(v) for v in stage.variables.values())}


def check_clone(case, ctx):
    tpl = copy.deepcopy(case["template"])
    rng = np.random.default_rng(case["rng"])
    feats = {"kind": "clone", "tpl_method": tpl["method"]["cls"], "tpl_features": tpl_features(tpl), "nclones": len(case["clones"]), "edited": case["edited"] < len(case["clones"])}
    tpl["objective"] = tpl["objective"] + gen.activation_objective(tpl)
    # A: clones of the template
    A = copy.deepcopy(case["master"])
    A["templates"] = [tpl]
    A["substages"] = []
    Bd = copy.deepcopy(case["master"])
    Bd["substages"] = []
    for i, c in enumerate(case["clones"]):
        ca_ = copy.deepcopy(c)
        direct = rename_spec(tpl, "c%d_" % i, c["name"])
        for key in ("t0", "T"):
            if key in c:
                direct[key] = c[key]
        if i == case["edited"] and case.get("param_edit"):
            ca_["param_values"] = [case["param_edit"]]
            for d in direct["params"]:
                if d["name"] == "c%d_" % i + case["param_edit"][0]:
                    d["value"] = case["param_edit"][1]
        if i == case["edited"]:
            ca_["constraints"] = [case["extra"]]
            direct["constraints"] = direct["constraints"] + [{k: ([rename_expr(e, "c%d_" % i) for e in v] if k in ("lhs", "rhs", "lb", "ub") else v) for k, v in case["extra"].items()}]
        A["substages"].append(ca_)
        Bd["substages"].append(direct)
    fails = []
    # untouched template for comparison of declared lists
    ref_tpl = build({"name": "main", "states": [], "controls": [], "params": [], "vars": [], "algebraics": [], "T": ["num", 1.0], "t0": ["num", 0.0], "method": None,
                     "objective": [], "constraints": [], "templates": [copy.deepcopy(tpl)], "substages": []})
    BA = build(A)
    try:
        nA = NLP(BA.ocp)
    except Exception:
        raise
    BB = build(Bd)
    nB = NLP(BB.ocp)
    if (nA.nx, nA.np_, nA.ng) != (nB.nx, nB.np_, nB.ng):
        fails.append(Fail("clone-dimensions", feats, {"clones": [nA.nx, nA.np_, nA.ng], "direct": [nB.nx, nB.np_, nB.ng]}))
        return fails
    if not close(nA.p0, nB.p0, 0, 0):
        fails.append(Fail("clone-parameter-values", feats, {"clones": nA.p0, "direct": nB.p0}))
    if not close(nA.x0, nB.x0, 1e-12, 1e-12):
        fails.append(Fail("clone-starting-point", feats, {"clones": nA.x0, "direct": nB.x0}))
    # same sampled quantities through clone / direct stages (cross-check of the variable order)
    for i, c in enumerate(case["clones"]):
        sa, sb = BA.stages[c["name"]], BB.stages[c["name"]]
        for d in tpl["states"]:
            if d.get("quad"):
                continue
            nA.add("%s:%s" % (c["name"], d["name"]), sa.sample(ca.vec(BA.syms[d["name"]]), grid="control")[1])
            nB.add("%s:%s" % (c["name"], d["name"]), sb.sample(ca.vec(BB.syms["c%d_" % i + d["name"]]), grid="control")[1])
        nA.add("%s:tk" % c["name"], sa.sample(sa.t, grid="control")[0])
        nB.add("%s:tk" % c["name"], sb.sample(sb.t, grid="control")[0])
    X = rng.uniform(0.3, 1.3, size=(K, nA.nx))
    evA, evB = [], []
    for i in range(K):
        ra, rb = nA.eval(X[i]), nB.eval(X[i])
        evA.append(ra)
        evB.append(rb)
        if not close(ra["f"], rb["f"], 1e-10, 1e-11):
            fails.append(Fail("clone-objective", feats, {"clones": ra["f"], "direct": rb["f"]}))
            break
        for k in ra:
            if isinstance(k, str) and ":" in k and k.startswith("c") and not close(ra[k], rb[k], 1e-10, 1e-11):
                fails.append(Fail("clone-samples", feats, {"quantity": k, "clones": ra[k], "direct": rb[k]}))
                break
    ctx.count("numeric_points", K)
    d = diff_rows(Rows.from_evals(evA), Rows.from_evals(evB), rtol=1e-9, atol=1e-10)
    if any(d.values()):
        fails.append(Fail("clone-rows", feats, summarize_diff(d)))
    dl_a, dl_r = declared_lists(BA.stages["tpl"]), declared_lists(ref_tpl.stages["tpl"])
    if dl_a != dl_r:
        fails.append(Fail("template-changed", feats, {k: [dl_a[k], dl_r[k]] for k in dl_a if dl_a[k] != dl_r[k]}))
    if fails:
        return fails
    # one more clone after the composite has been transcribed: the next query sees it (as many variables, parameters and rows as a
    # freshly written OCP with that extra clone)
    BA.ocp.stage(BA.stages["tpl"], t0=0.25, T=1.25)
    A2 = copy.deepcopy(A)
    A2["substages"].append({"name": "c_late", "template": "tpl", "t0": ["num", 0.25], "T": ["num", 1.25]})
    n_late, n_fresh = NLP(BA.ocp), NLP(build(A2).ocp)
    if (n_late.nx, n_late.np_, n_late.ng) != (n_fresh.nx, n_fresh.np_, n_fresh.ng):
        fails.append(Fail("late-clone-not-in-composite", feats, {"after_late_clone": [n_late.nx, n_late.np_, n_late.ng], "fresh_with_that_clone": [n_fresh.nx, n_fresh.np_, n_fresh.ng],
                                                             "before": [nA.nx, nA.np_, nA.ng]}))
    return fails


def check(case, ctx):
    cons = [c for st_ in case["spec"].get("substages", []) for c in st_.get("constraints", [])] if case["kind"] == "compose" else \
        list(case["template"].get("constraints", [])) + [case["extra"]]
    if any(c04.degenerate(c) for c in cons):
        ctx.count("relation_collapses_symbolically")
        return []
    return check_compose(case, ctx) if case["kind"] == "compose" else check_clone(case, ctx)


def judge_exception(case, exc, fail):
    # Every example hands coupling constraints to the parent; a version of rockit that refuses them on a sub-stage would still satisfy
    # the property. Only a constraint that is accepted and then silently lost or altered counts.
    if case["kind"] == "compose" and any(c.get("on") for c in case["spec"]["coupling"]):
        return "reject"
    return "violation"


TECHNIQUE = "property-based testing (Hypothesis): differential composite-vs-stand-alone stages with dictionary transport and reference-evaluated coupling; differential clone-vs-direct declaration"
LEVEL_TEXT = ("Generated-input exploration with two differential oracles: the multi-stage NLP against the disjoint union of separately transcribed stages plus reference-evaluated parent terms, and "
              "template clones (with overrides and one edited sibling) against the same content declared directly, plus invariance of the template's declared lists.")
LEVEL_NOTE = "Trusted: CasADi evaluation; variable dictionaries for stage-wise transport; symbol renaming of specs for the direct twin."
