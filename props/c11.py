"""C11 - a free-time problem is the fixed-time problem with T (t0) as a decision variable."""
import copy
import numpy as np
import casadi as ca
from hypothesis import strategies as st

from vlib import gen, ref, obs
from vlib import expr as E
from vlib.build import build
from vlib.core import Fail, HarnessInconclusive
from vlib.nlp import NLP, Rows, Dictionary, subtract_rows, close, time_like_vars, random_points, summarize_diff
from props import c04, c05

ID = "C11"
LEVEL = "exploration"
BUDGET = {"quick": (8, 45), "thorough": (16, 1500)}
K = 3
RULE = ("Generated OCP (all sampling methods, N, M, degree, grids incl. localized and FreeGrid, time-dependent dynamics, objective terms and constraints mentioning t, T, t0, tf) declared twice: "
        "with fixed numbers (c0, c) and with FreeTime(guess) for T, t0 or both (or a user variable through set_T). A random decision vector of the fixed problem is transported to the free one "
        "through a computed variable dictionary with T:=c, t0:=c0; oracles: equal objective, rows(free) == rows(fixed) + {T>=0}, value(T|t0|tf) select the variable, start value of T/t0 == guess. "
        "Non-trivial = explicit-t data, non-uniform/localized grid or T in objective/constraints; distinct = SHA-1 of case JSON.")
ASSUMPTIONS = ["the variable dictionary (constant-Jacobian rows of sampled raw quantities) determines every decision variable; cases where it does not are counted inconclusive"]


@st.composite
def strategy_(draw):
    sp = draw(gen.base_ocp(horizons=("num",)))
    g = sp["method"]["grid"]
    if g.get("localize_t0") and (g.get("localize_T") or g["cls"] == "free"):
        g["localize_t0"] = False    # local interval lengths are then invisible to every sampled quantity (dictionary cannot cover them)
    sp["objective"] = [draw(c05.objective_term(sp)) for _ in range(draw(st.integers(1, 2)))]
    sp["constraints"] = [draw(c04.constraint(sp, allow_roots=False)) for _ in range(draw(st.integers(0, 2)))]
    which = draw(st.sampled_from(["T", "t0", "both", "T", "Tvar"]))
    case = {"spec": sp, "free": which, "guess_T": draw(st.sampled_from([0.5, 1.0, 2.5])), "guess_t0": draw(st.sampled_from([0.0, 0.25, -1.5])), "rng": draw(st.integers(0, 2**31 - 1))}
    if draw(st.integers(0, 3)) == 0:
        sp["time_scale"] = draw(st.sampled_from([10.0, 0.1]))     # Ocp(..., scale=s): a hint, the problem and its starting point stay the same
    return case


def strategy(tier):
    return strategy_()


def mentions_time(sp):
    ex = [e for _, l in sp.get("der", []) + sp.get("next", []) for e in l] + sp.get("objective", []) + [e for c in sp.get("constraints", []) for e in c["lhs"]]
    return any(E.has_op(e, "t", "T", "t0", "tf") for e in ex)


def nontrivial(case):
    sp = case["spec"]
    return bool(mentions_time(sp) or gen.grid_nontrivial(sp["method"]["grid"]))


def classify(case):
    sp = case["spec"]
    m = sp["method"]
    labs = ["method:" + m["cls"], "grid:" + m["grid"]["cls"], "free:" + case["free"]]
    if m["grid"].get("localize_t0") or m["grid"].get("localize_T"):
        labs.append("grid:localized")
    if mentions_time(sp):
        labs.append("time-dependent data")
    return labs


def abbreviate(case):
    sp = case["spec"]
    return {"method": sp["method"], "T": sp["T"], "t0": sp["t0"], "free": case["free"], "objective": sp["objective"][:1], "rng": case["rng"]}


def raw_quantities(B, dc, sname="main"):
    pr = obs.stage_probes(B, sname, dc=dc, intg=not dc)
    raw = {}
    for k, v in pr.items():
        key = k.split("|", 1)[1]
        if key.startswith("sig:") or key.startswith("glob:") or key.startswith("intg:") or key.startswith("roots:"):
            if B.decl[key.split(":", 1)[1]]["kind"] in ("param", "qstate"):
                continue
        if key in ("ti", "tr"):
            continue
        raw[key] = v
    return raw


def check(case, ctx):
    spB = copy.deepcopy(case["spec"])
    if any(c04.degenerate(c, {d["name"] for d in spB["params"]}) for c in spB.get("constraints", [])):
        ctx.count("relation_collapses_symbolically")
        return []
    m = spB["method"]
    dc = m["cls"] == "DC"
    rng = np.random.default_rng(case["rng"])
    spB["objective"] = spB["objective"] + gen.activation_objective(spB)
    c, c0 = spB["T"][1], spB["t0"][1]
    # the fixed problem carries its horizon as parameters so that every numeric point can use its own (c, c0)
    spB["params"] = spB["params"] + [{"name": "hp_T", "rows": 1, "cols": 1, "grid": "", "value": [[c]]}, {"name": "hp_t0", "rows": 1, "cols": 1, "grid": "", "value": [[c0]]}]
    spB["T"], spB["t0"] = ["par", "hp_T"], ["par", "hp_t0"]
    free = case["free"]
    spA = copy.deepcopy(spB)
    spA["params"] = [d for d in spA["params"] if not d["name"].startswith("hp_")]
    spA["T"], spA["t0"] = ["num", c], ["num", c0]
    if free in ("T", "both"):
        spA["T"] = ["free", case["guess_T"]]
    if free in ("t0", "both"):
        spA["t0"] = ["free", case["guess_t0"]]
    if free == "Tvar":
        spA["vars"] = spA["vars"] + [{"name": "hv_T", "rows": 1, "cols": 1, "grid": ""}]
        spA["T"] = ["par", "hv_T"]
    feats = {"method": m["cls"], "tgrid": m["grid"]["cls"], "free": free, "localized": bool(m["grid"].get("localize_t0") or m["grid"].get("localize_T"))}
    BA, BB = build(spA), build(spB)
    nA, nB = NLP(BA.ocp), NLP(BB.ocp)
    rawA, rawB = raw_quantities(BA, dc), raw_quantities(BB, dc)
    if free == "Tvar":
        rawA.pop("glob:hv_T", None)
    dA, dB = Dictionary(nA, rawA, rng), Dictionary(nB, rawB, rng)
    if not dA.covers():
        raise HarnessInconclusive("dictionary does not cover the free-time NLP")
    nA.add("vT", BA.ocp.value(BA.ocp.T))
    nA.add("vt0", BA.ocp.value(BA.ocp.t0))
    nA.add("vtf", BA.ocp.value(BA.ocp.tf))
    tlB = time_like_vars(nB, [rawB["tk"]])
    XB = random_points(nB, rng, K, time_like=tlB)
    fails = []
    evA, evB = [], []
    # positions of the horizon parameters in the fixed problem's parameter vector
    JT = np.array(ca.DM(ca.jacobian(ca.vertcat(BB.ocp.value(BB.ocp.T), BB.ocp.value(BB.ocp.t0)), nB.p).sparsity(), 1))
    iT, it0 = int(np.argmax(JT[0])), int(np.argmax(JT[1]))
    cs = [c, c * 1.5 + 0.25, c * 0.5 + 0.125]
    c0s = [c0, c0 + 0.5, c0 - 0.75] if free in ("t0", "both") else [c0] * 3
    if free == "t0":
        cs = [c] * 3
    for i in range(K):
        pB = nB.p0.copy()
        pB[iT], pB[it0] = cs[i], c0s[i]
        c_i, c0_i = cs[i], c0s[i]
        qB = dB.values(XB[i], pB)
        targets = {}
        for lab, idx in dB.index.items():
            if lab in dA.index and dA.linear[dA.index[lab]]:
                targets[lab] = qB[idx]
        targets[("T", 0)] = c_i
        targets[("t0", 0)] = c0_i
        xA, res, rank = dA.solve_for(targets)
        if rank < nA.nx:
            raise HarnessInconclusive("transport not unique")
        if res > 1e-9:
            # the free problem cannot reproduce the fixed problem's node times together with T=c, t0=c0:
            # drop the node times from the targets; if everything else is still determined the grids disagree
            t2 = {k: v for k, v in targets.items() if k[0] != "tk"}
            xA2, res2, rank2 = dA.solve_for(t2)
            if rank2 == nA.nx and res2 <= 1e-9:
                tkA = dA.values(xA2)[[dA.index[("tk", j)] for j in range(m["N"] + 1)]]
                tkB = qB[[dB.index[("tk", j)] for j in range(m["N"] + 1)]]
                fails.append(Fail("time-grid-differs", feats, {"free": tkA, "fixed": tkB, "c": c_i, "c0": c0_i}))
                break
            raise HarnessInconclusive("transport inconsistent")
        ra, rb = nA.eval(xA), nB.eval(XB[i], pB)
        evA.append(ra)
        evB.append(rb)
        if not close(ra["f"], rb["f"], rtol=1e-7, atol=1e-9):      # the decision vector is transported by least squares: ~1e-9 relative on it
            fails.append(Fail("objective", feats, {"free": ra["f"], "fixed": rb["f"], "c": c_i, "c0": c0_i}))
            break
        got = [float(ra[k].reshape(-1)[0]) for k in ("vT", "vt0", "vtf")]
        if not close(got, [c_i, c0_i, c0_i + c_i], rtol=1e-12, atol=1e-12):
            fails.append(Fail("value-of-horizon", feats, {"value(T,t0,tf)": got, "expected": [c_i, c0_i, c0_i + c_i]}))
            break
    ctx.count("numeric_points", K)
    if fails:
        return fails
    rowsA, rowsB = Rows.from_evals(evA), Rows.from_evals(evB)
    extra, lost = subtract_rows(rowsA, rowsB, rtol=1e-7, atol=1e-9)
    if lost.count():
        fails.append(Fail("rows-lost", feats, {"lost": lost.count(), "first": (lost.eq + lost.ineq)[:2]}))
    want = Rows()
    if free in ("T", "both"):
        want.add_ineq(np.array(cs))      # T >= 0
    sur, missing = subtract_rows(extra, want, rtol=1e-9, atol=1e-10)
    # rows that are a positive multiple of T>=0 (e.g. the grid's default "interval length >= 0") restrict nothing further
    keep = []
    for v in sur.ineq:
        ratio = v / np.array(cs)
        if free in ("T", "both", "Tvar") and ratio[0] > 0 and np.allclose(ratio, ratio[0], rtol=1e-9, atol=0):
            ctx.count("redundant_T_rows")
        else:
            keep.append(v)
    sur.ineq = keep
    if missing.count():
        fails.append(Fail("T-nonnegativity-missing", feats, {"extra_rows": extra.count()}))
    if sur.count():
        fails.append(Fail("surplus-rows", feats, {"surplus": sur.count(), "first": (sur.eq + sur.ineq)[:2]}))
    # start values of the horizon variables
    q0 = dA.values(nA.x0)
    # ... and of the whole control grid (localized / free grids carry their own time variables)
    T_start = case["guess_T"] if free in ("T", "both") else (0.0 if free == "Tvar" else c)
    t0_start = case["guess_t0"] if free in ("t0", "both") else c0
    if free != "Tvar":
        g_ = m["grid"]
        tk_start = np.array([q0[dA.index[("tk", j)]] for j in range(m["N"] + 1)])
        tol = 2e-5 if g_["cls"] == "density" else 1e-10
        want_tk = t0_start + T_start * ref.normalized_grid(g_, m["N"])
        if not close(tk_start, want_tk, tol, tol):
            fails.append(Fail("time-grid-start", feats, {"start": tk_start, "implied_by_guesses": want_tk}))
    if free in ("T", "both") and not close(q0[dA.index[("T", 0)]], case["guess_T"], 1e-12, 1e-12):
        fails.append(Fail("T-start-value", feats, {"start": q0[dA.index[("T", 0)]], "guess": case["guess_T"]}))
    if free in ("t0", "both") and not close(q0[dA.index[("t0", 0)]], case["guess_t0"], 1e-12, 1e-12):
        fails.append(Fail("t0-start-value", feats, {"start": q0[dA.index[("t0", 0)]], "guess": case["guess_t0"]}))
    if not fails and free in ("T", "both"):
        # the horizon declared free once more, with another guess, after the problem has been transcribed: the start value follows
        from rockit import FreeTime
        g2 = case["guess_T"] + 0.75
        BA.ocp.set_T(FreeTime(g2))
        n2 = NLP(BA.ocp)
        n2.add("vT", BA.ocp.value(BA.ocp.T))
        T2 = float(n2.eval(n2.x0)["vT"].reshape(-1)[0])
        if not close(T2, g2, 1e-12, 1e-12):
            fails.append(Fail("T-start-value", dict(feats, redeclared_after_transcription=True), {"start": T2, "guess": g2, "previous_guess": case["guess_T"]}))
    return fails


TECHNIQUE = "property-based testing (Hypothesis): differential free-time vs fixed-time NLP with decision vectors transported through a computed variable dictionary; row multiset difference must be exactly {T>=0}"
LEVEL_TEXT = ("Generated-input exploration with a differential oracle: the free-time NLP restricted to T=c, t0=c0 must have the objective and constraint rows of the fixed-time NLP plus T>=0, "
              "for every method and grid formulation, at random decision vectors matched through sampled physical quantities.")
LEVEL_NOTE = "Trusted: CasADi evaluation; the dictionary (constant-Jacobian rows of ocp.sample/ocp.value outputs) as bridge between the two variable layouts."
