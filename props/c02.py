"""C02 - direct collocation constraints characterise the collocation polynomial."""
import numpy as np
import casadi as ca
from hypothesis import strategies as st

from vlib import gen, ref, obs
from vlib import expr as E
from vlib.build import build
from vlib.core import Fail, HarnessInconclusive
from vlib.nlp import NLP, Rows, subtract_rows, close, time_like_vars, random_points

ID = "C02"
LEVEL = "exploration"
BUDGET = {"quick": (8, 60), "thorough": (16, 2000)}
K = 3
RULE = ("Generated ODE/DAE OCPs (vector/matrix states, controls, global/per-interval/per-node parameters and variables, optional index-1 algebraic equation, explicit t in most "
        "right-hand sides, fixed/free/parametric horizon) x DirectCollocation degree 1..5 x radau|legendre x N 1..4 x M 1..3 x every grid class; at 3 random decision vectors the "
        "equality rows of the real NLP that involve state-like variables must equal, as a multiset in both directions, the reference model's collocation defects "
        "(interpolant derivative at tau_j / h - f, algebraic residuals, interpolant end value - next start state) built from the reference's own collocation points and Lagrange basis; "
        "sampled collocation times must equal t_start + tau_j h. Non-trivial = degree != 4, legendre, M>1, DAE, non-uniform/localized grid or explicit t; distinct = SHA-1 of the case JSON.")
ASSUMPTIONS = ["helper-state and algebraic values at collocation points are read with ocp.sample(grid='integrator'|'integrator_roots'); a wrong read-back shows up as a row mismatch"]


@st.composite
def strategy_(draw):
    sp = draw(gen.base_ocp(methods=("DC",)))
    return {"spec": sp, "rng": draw(st.integers(0, 2**31 - 1))}


def strategy(tier):
    return strategy_()


def nontrivial(case):
    sp = case["spec"]
    m = sp["method"]
    has_t = any(E.has_op(e, "t") for _, ex in sp["der"] for e in ex)
    return bool(m["degree"] != 4 or m["scheme"] == "legendre" or m["M"] > 1 or sp.get("alg") or gen.grid_nontrivial(m["grid"]) or has_t)


def classify(case):
    sp = case["spec"]
    m = sp["method"]
    labs = ["dc:%s-%d" % (m["scheme"], m["degree"]), "grid:" + m["grid"]["cls"], "T:" + sp["T"][0], "t0:" + sp["t0"][0]]
    if sp.get("alg"):
        labs.append("DAE")
    if m["M"] > 1:
        labs.append("M>1")
    if m["N"] == 1:
        labs.append("N=1")
    if m["grid"].get("localize_t0") or m["grid"].get("localize_T"):
        labs.append("grid:localized")
    return labs


def abbreviate(case):
    sp = case["spec"]
    return {"method": sp["method"], "t0": sp["t0"], "T": sp["T"], "states": sp["states"], "algebraics": sp["algebraics"], "der": sp["der"][:1], "alg": sp.get("alg"), "rng": case["rng"]}


def check(case, ctx):
    sp = case["spec"]
    m = sp["method"]
    N, M, d = m["N"], m["M"], m["degree"]
    rng = np.random.default_rng(case["rng"])
    feats = {"scheme": m["scheme"], "degree": d, "tgrid": m["grid"]["cls"], "dae": bool(sp.get("alg")), "M>1": M > 1}
    B = build(sp)
    nlp = NLP(B.ocp)
    probes = obs.stage_probes(B, "main", dc=True)
    nlp.add_all(probes)
    tl = time_like_vars(nlp, [probes["main|tk"], probes["main|T"]])
    X = random_points(nlp, rng, K, time_like=tl)
    R = ref.StageRef(sp)
    col = ref.Colloc(d, m["scheme"])
    fails = []
    evals, exp_pts = [], []
    for i in range(K):
        res = nlp.eval(X[i])
        evals.append(res)
        data = ref.override_params(obs.unpack(res, "main"), sp, N)
        tr = ref.Traj(R, data, M)
        xi = np.vstack([data["intg"][dd["name"]] for dd in R.states])          # nx x (N*M+1)
        xr = np.vstack([data["roots"][dd["name"]] for dd in R.states])         # nx x (N*M*d)
        zr = np.vstack([data["roots"][dd["name"]] for dd in R.algebraics]) if R.nz else np.zeros((0, N * M * d))
        trs = data["tr"]
        if xi.shape[1] != N * M + 1 or xr.shape[1] != N * M * d:
            fails.append(Fail("sample-count", feats, {"integrator": xi.shape[1], "roots": xr.shape[1]}))
            return fails
        defects = []
        for k in range(N):
            h = (tr.tk[k + 1] - tr.tk[k]) / M
            base = tr.base_vals(k, node=k)
            for s in range(M):
                step = k * M + s
                t_start = tr.tk[k] + s * h
                Xc = np.column_stack([xi[:, step]] + [xr[:, step * d + j] for j in range(d)])
                for j in range(d):
                    tj = t_start + col.tau[j] * h
                    if not close(trs[step * d + j], tj, rtol=1e-10, atol=1e-11):
                        fails.append(Fail("root-times", feats, {"step": step, "j": j, "sampled": trs[step * d + j], "reference": tj}))
                        return fails
                    zj = zr[:, step * d + j]
                    f, _ = R.rhs(xr[:, step * d + j], base, tj, T=tr.T, t0=tr.t0, z=zj if R.nz else None)
                    defects.append(Xc @ col.Cm[:, j] / h - f)
                    if R.nz:
                        defects.append(R.alg_res(xr[:, step * d + j], base, tj, zj, T=tr.T, t0=tr.t0))
                defects.append(Xc @ col.Dv - xi[:, step + 1])
        v = np.concatenate(defects)
        if not np.all(np.isfinite(v)):
            raise HarnessInconclusive("reference overflow")
        exp_pts.append(v)
    ctx.count("numeric_points", K)
    rows = Rows.from_evals(evals)
    expected = Rows()
    E_ = np.array(exp_pts)
    for j in range(E_.shape[1]):
        expected.add_eq(E_[:, j])
    ctx.count("rows_compared", expected.count())
    rest, missing = subtract_rows(rows, expected, rtol=1e-8, atol=1e-9)
    if missing.count():
        fails.append(Fail("collocation-rows", feats, {"missing": missing.count(), "expected": expected.count(), "first_missing": missing.eq[:2], "nlp_eq_rows": len(rows.eq)}))
    # no other row may restrict states / controls / algebraic values / variables
    phys = [mx for lab, mx in probes.items() if ("|sig:" in lab or "|glob:" in lab or "|roots:" in lab or "|intg:" in lab)
            and B.decl[lab.split(":", 1)[1]]["kind"] not in ("qstate", "param")]
    sens = nlp.jac_sparsity()
    non_time = np.zeros(nlp.nx, dtype=bool)
    non_time[time_like_vars(nlp, phys)] = True
    dyn_rows = int(np.sum(sens[:, non_time].any(axis=1))) if sens.size else 0
    if dyn_rows != expected.count():
        fails.append(Fail("extra-dynamic-rows", feats, {"rows_depending_on_model_variables": dyn_rows, "expected": expected.count()}))
    return fails


TECHNIQUE = "property-based testing (Hypothesis): generated ODE/DAE OCPs, independent collocation model (own points, Lagrange basis) as oracle, NLP rows compared as slack-signature multisets"
LEVEL_TEXT = ("Generated-input exploration with an independent reference implementation of the collocation scheme (own Legendre/Radau points and Lagrange basis from numpy polynomials): "
              "the NLP's dynamic rows must be exactly the reference defects at random decision vectors, so a trajectory is feasible iff it satisfies the reference scheme.")
LEVEL_NOTE = "Trusted: CasADi evaluation of rockit's NLP; ocp.sample read-back on integrator / integrator_roots grids (any inconsistency shows as a row mismatch); numpy.polynomial."
