"""C01 - shooting transcription encodes exactly the chosen integration scheme."""
import numpy as np
from hypothesis import strategies as st

from vlib import gen, ref, obs
from vlib import expr as E
from vlib.build import build
from vlib.core import Fail, HarnessInconclusive
from vlib.nlp import NLP, Rows, subtract_rows, close, time_like_vars, random_points, summarize_diff, DMa

ID = "C01"
LEVEL = "exploration"
BUDGET = {"quick": (8, 120), "thorough": (16, 3000)}
RULE = ("Hypothesis-generated OCP specs (1-2 state symbols of vector/matrix shape, 0-2 controls, global / per-interval / "
        "per-node parameters and variables, optional quadrature state, bounded nonlinear time-dependent right-hand sides or a "
        "discrete set_next model using DT/DT_control, fixed/free/parametric t0 and T) x SingleShooting|MultipleShooting x "
        "rk|expl_euler|set_next x N 1..5 x M 1..4 x every grid class; each case is evaluated at 3 random decision vectors. "
        "A case is non-trivial when it has explicit t in the model, per-interval p/v, M>1, a non-uniform or localized grid, "
        "t0!=0 or a free/parametric horizon; distinct = distinct SHA-1 of the canonical case JSON.")
ASSUMPTIONS = ["ocp._method.opti is the NLP handed to the solver (same handle the repository's tests use)",
               "ocp.sample(.., grid='control') and sampled node times are used to read physical values at a decision vector (their own correctness is C06/C07)"]
K = 3


@st.composite
def strategy_(draw, tier="quick"):
    tab = draw(gen.symbol_table(quad=True))
    discrete = draw(st.integers(0, 3)) == 0
    sp = {"name": "main"}
    sp.update(tab)
    sp["t0"] = draw(gen.horizon(which="t0"))
    sp["T"] = draw(gen.horizon(which="T"))
    gen.install_horizon_params(sp)
    m = draw(gen.shooting_method())
    if discrete:
        m["intg"] = "rk"  # ignored by rockit for set_next models
        sp["next"] = gen.dynamics(draw, tab, discrete=True)
    else:
        sp["der"] = gen.dynamics(draw, tab)
    sp["method"] = m
    gen.fill_param_values(draw, sp, m["N"])
    # set_der / set_next either per state or once on a concatenation of all states (matrix-shaped ones in between)
    sp["dyn_concat"] = draw(st.integers(0, 2)) == 0
    sp["dyn_reversed"] = draw(st.integers(0, 2)) == 0     # set_der / set_next issued in the reverse of the declaration order
    return {"spec": sp, "rng": draw(st.integers(0, 2**31 - 1))}


def strategy(tier):
    return strategy_(tier)


def scheme_of(sp):
    return "set_next" if sp.get("next") else sp["method"]["intg"]


def nontrivial(case):
    sp = case["spec"]
    m = sp["method"]
    model = [e for _, ex in sp.get("der", []) + sp.get("next", []) for e in ex]
    has_t = any(E.has_op(e, "t") for e in model)
    per_interval = any(d.get("grid", "") != "" for d in sp["params"] + sp["vars"])
    return bool(has_t or per_interval or m["M"] > 1 or gen.grid_nontrivial(m["grid"]) or sp["t0"] != ["num", 0.0]
                or sp["t0"][0] != "num" or sp["T"][0] != "num")


def classify(case):
    sp = case["spec"]
    m = sp["method"]
    labs = ["method:" + m["cls"], "scheme:" + scheme_of(sp), "grid:" + m["grid"]["cls"], "T:" + sp["T"][0], "t0:" + sp["t0"][0]]
    if m["N"] == 1:
        labs.append("N=1")
    if m["M"] == 1:
        labs.append("M=1")
    if m["grid"].get("localize_t0") or m["grid"].get("localize_T"):
        labs.append("grid:localized")
    if any(d.get("quad") for d in sp["states"]):
        labs.append("quad-state")
    if sp.get("dyn_concat"):
        labs.append("dynamics set on a concatenation of states")
    if any(d.get("grid") == "control" for d in sp["params"] + sp["vars"]):
        labs.append("per-interval p/v")
    if any(d.get("grid") == "control+" for d in sp["params"] + sp["vars"]):
        labs.append("per-node p/v")
    return labs


def abbreviate(case):
    sp = case["spec"]
    return {"method": sp["method"], "t0": sp["t0"], "T": sp["T"], "states": sp["states"], "controls": sp["controls"],
            "params": [{k: v for k, v in d.items() if k != "value"} for d in sp["params"]], "vars": sp["vars"],
            "model": (sp.get("der") or sp.get("next"))[:1], "rng": case["rng"]}


def check(case, ctx):
    sp = case["spec"]
    m = sp["method"]
    rng = np.random.default_rng(case["rng"])
    scheme = scheme_of(sp)
    feats = {"method": m["cls"], "scheme": scheme, "grid": m["grid"]["cls"], "M>1": m["M"] > 1}
    B = build(sp)
    nlp = NLP(B.ocp)
    probes = obs.stage_probes(B, "main")
    nlp.add_all(probes)
    tl = time_like_vars(nlp, [probes["main|tk"], probes["main|T"]])
    X = random_points(nlp, rng, K, time_like=tl)
    R = ref.StageRef(sp)
    N, M = m["N"], m["M"]
    fails = []
    evals = []
    exp_cols = []   # per point: list of expected gap residuals (flattened over k)
    for i in range(K):
        res = nlp.eval(X[i])
        evals.append(res)
        data = ref.override_params(obs.unpack(res, "main"), sp, m["N"])
        tr = ref.Traj(R, data, M)
        if len(tr.tk) != N + 1:
            fails.append(Fail("node-count", feats, {"len_tk": len(tr.tk), "N": N}))
            return fails
        gaps = []
        for k in range(N):
            xk = tr.state_vec(k)
            xf, qf, _, _ = ref.propagate(R, scheme, xk, tr.base_vals(k, node=k), tr.tk[k], tr.tk[k + 1], M, T=tr.T, t0=tr.t0)
            if not np.all(np.isfinite(xf)):
                raise HarnessInconclusive("reference overflow")
            xn = tr.state_vec(k + 1)
            gaps.append(xn - xf)
            if m["cls"] == "SS":
                # SingleShooting reports as states exactly the recursion from the initial state
                if not close(xn, xf, rtol=1e-9, atol=1e-9):
                    fails.append(Fail("ss-recursion", feats, {"k": k, "sampled": xn, "reference": xf}))
            if R.nq:
                qk = np.concatenate([data["sig"][d["name"]][:, k] for d in R.qstates])
                qn = np.concatenate([data["sig"][d["name"]][:, k + 1] for d in R.qstates])
                if not close(qn - qk, qf, rtol=1e-9, atol=1e-9):
                    fails.append(Fail("quadrature-state", feats, {"k": k, "sampled_increment": qn - qk, "reference": qf}))
        exp_cols.append(np.concatenate(gaps) if gaps else np.zeros(0))
    ctx.count("numeric_points", K)
    rows = Rows.from_evals(evals)
    ctx.count("nlp_rows", rows.count())
    nxN = R.nx * N
    sens = nlp.jac_sparsity()
    # decision variables carrying states / controls / variables (everything else is a time-grid variable)
    phys = []
    for lab, mx in probes.items():
        if "|sig:" in lab or "|glob:" in lab:
            d = B.decl[lab.split(":", 1)[1]]
            if d["kind"] in ("qstate", "param"):
                continue
            if d["kind"] == "state" and m["cls"] == "SS":
                mx = mx[:, 0]
            phys.append(mx)
    non_time = np.zeros(nlp.nx, dtype=bool)
    non_time[time_like_vars(nlp, phys)] = True
    dyn_rows = int(np.sum(sens[:, non_time].any(axis=1))) if sens.size else 0
    if m["cls"] == "MS":
        expected = Rows()
        E_ = np.array(exp_cols)   # K x (nx*N)
        for j in range(E_.shape[1]):
            expected.add_eq(E_[:, j])
        rest, missing = subtract_rows(rows, expected, rtol=1e-8, atol=1e-9)
        if missing.count():
            fails.append(Fail("gap-rows", feats, {"missing": missing.count(), "expected": nxN,
                                                  "first_missing": missing.eq[:2], "nlp_eq_rows": len(rows.eq)}))
        if dyn_rows != nxN:
            fails.append(Fail("extra-dynamic-rows", feats, {"rows_depending_on_states_or_controls": dyn_rows, "expected": nxN}))
    else:
        if dyn_rows != 0:
            fails.append(Fail("extra-dynamic-rows", feats, {"rows_depending_on_states_or_controls": dyn_rows, "expected": 0}))
    return fails

TECHNIQUE = "property-based testing (Hypothesis): generated OCP specs, numpy reference integrator as model oracle, NLP rows compared as slack-signature multisets at random decision vectors"
LEVEL_TEXT = ("Generated-input exploration with an independent reference model: for every generated shooting problem the gap-closing rows of the real NLP "
              "must equal (as a multiset, both directions) the residuals node_state - M reference steps, evaluated at random decision vectors; no other row may "
              "depend on states or controls; SingleShooting samples and quadrature states must follow the same recursion. Evidence of absence only within the explored cases.")
LEVEL_NOTE = "Trusted: CasADi evaluation of rockit's own symbolic NLP, ocp.sample on the control grid as read-back of node values/times (checked separately by C06/C07), the numpy reference integrators in vlib/ref.py."
