"""C06 - the time grid is the declared partition of [t0, t0+T]."""
import math
import numpy as np
import casadi as ca
from hypothesis import strategies as st

from vlib import gen, ref, obs
from vlib import expr as E
from vlib.build import build
from vlib.core import Fail, HarnessInconclusive
from vlib.nlp import NLP, close, time_like_vars, DMa

ID = "C06"
LEVEL = "exploration"
BUDGET = {"quick": (8, 90), "thorough": (16, 3000)}
RULE = ("Generated grid configurations: class in {Uniform, Geometric(growth 1/1.5/2/4, local/global), Function(power rule), Density(a+b tau), DenseEdges, Free} x localize_t0 x localize_T x "
        "min/max in {default, value} x N 1..8 x M 1..4 x t0/T each fixed | FreeTime | parameter x method SS|MS|DC. The grid's own (linear) NLP rows are solved for the local time "
        "variables at chosen horizon values; oracles: rows consistent, unique solution for fixed-pattern grids, control grid == t0 + T * closed-form normalised locations "
        "(CDF inversion for densities), integrator grid = M equal sub-steps, sampled t (control, integrator, refined, collocation roots = step start + tau_j x step length) / DT / DT_control agree, min/max satisfied <=> the grid's inequality rows are satisfied. "
        "Non-trivial = anything but (UniformGrid, fixed horizon, N>=2, M=1, no localisation, no bounds); distinct = SHA-1 of the case JSON.")
ASSUMPTIONS = ["time rows are recognised as the NLP rows that do not depend on state/control variables", "grid constraints are linear in the time variables (verified per case at two points)"]


@st.composite
def strategy_(draw):
    cls = gen.weighted(draw, [("uniform", 3), ("geometric", 4), ("function", 2), ("density", 2), ("dense_edges", 1), ("free", 3)])
    g = {"cls": cls}
    if cls == "geometric":
        g["growth"] = draw(st.sampled_from([1.0, 1.5, 2.0, 4.0]))
        g["local"] = draw(st.booleans())
    if cls == "function":
        g["rule"] = "power"
        g["power"] = draw(st.sampled_from([2.0, 0.5, 1.5]))
        g["points"] = None
    if cls == "density":
        g["a"] = draw(st.sampled_from([1.0, 0.5, 2.0]))
        g["b"] = draw(st.sampled_from([1.0, 3.0, -0.25, 0.5]))
    if cls == "dense_edges":
        g["multiplier"] = draw(st.sampled_from([10, 3]))
        g["edge_frac"] = draw(st.sampled_from([0.1, 0.25]))
    g["localize_t0"] = draw(st.sampled_from([False, False, True]))
    if cls != "free":
        g["localize_T"] = draw(st.sampled_from([False, False, True]))
    if draw(st.integers(0, 2)) == 0:
        g["min"] = draw(st.sampled_from([0.1, 0.3]))
    if draw(st.integers(0, 2)) == 0:
        g["max"] = draw(st.sampled_from([0.6, 1.5]))
    N = draw(st.integers(1, 8))
    M = draw(st.integers(1, 4))
    mcls = draw(st.sampled_from(["MS", "SS", "DC"]))
    m = {"cls": mcls, "N": N, "M": M, "grid": g}
    if mcls == "DC":
        m["degree"] = draw(st.sampled_from([1, 2, 3]))
        m["scheme"] = draw(st.sampled_from(["radau", "legendre"]))
    else:
        m["intg"] = draw(st.sampled_from(["rk", "expl_euler"]))
    sp = {"name": "main", "states": [{"name": "x0", "rows": 1, "cols": 1}, {"name": "clk", "rows": 1, "cols": 1}], "controls": [{"name": "u0", "rows": 1, "cols": 1}], "params": [], "vars": [], "algebraics": [],
          "der": [["x0", [["+", ["*", E.C(-1.0), E.S("x0")], ["*", E.S("u0"), ["sin", ["t"]]]]]], ["clk", [E.C(1.0)]]], "method": m}     # clk: a clock carried by the dynamics
    sp["t0"] = draw(gen.horizon(which="t0"))
    sp["T"] = draw(gen.horizon(which="T"))
    gen.install_horizon_params(sp)
    for d in sp["params"]:
        pass
    return {"spec": sp, "Tstar": draw(st.sampled_from([0.5, 1.0, 2.0, 3.0, 0.25])), "t0star": draw(st.sampled_from([0.0, -1.0, 0.75])), "rng": draw(st.integers(0, 2**31 - 1))}


def strategy(tier):
    return strategy_()


def nontrivial(case):
    sp = case["spec"]
    m = sp["method"]
    g = m["grid"]
    trivial = (g["cls"] == "uniform" and sp["T"][0] == "num" and sp["t0"][0] == "num" and m["N"] >= 2 and m["M"] == 1
               and not g.get("localize_t0") and not g.get("localize_T") and "min" not in g and "max" not in g)
    return not trivial


def classify(case):
    sp = case["spec"]
    m = sp["method"]
    g = m["grid"]
    labs = ["grid:" + g["cls"], "method:" + m["cls"], "T:" + sp["T"][0], "t0:" + sp["t0"][0]]
    if g.get("localize_t0"):
        labs.append("localize_t0")
    if g.get("localize_T"):
        labs.append("localize_T")
    if "min" in g or "max" in g:
        labs.append("bounds")
    if m["N"] == 1:
        labs.append("N=1")
    return labs


def abbreviate(case):
    sp = case["spec"]
    return {"method": sp["method"], "t0": sp["t0"], "T": sp["T"], "Tstar": case["Tstar"], "t0star": case["t0star"]}


def reference_normalized(g, N):
    if g["cls"] == "dense_edges":
        from scipy.integrate import quad
        from scipy.optimize import brentq
        mult, ef = g.get("multiplier", 10), g.get("edge_frac", 0.1)
        interp = ca.interpolant("interp", "bspline", [[0.0, ef, 1 - ef, 1.0]], [mult, 1.0, 1.0, mult], {"algorithm": "smooth_linear"})
        dens = lambda s: float(interp(s))
        pts = [ef, 1 - ef]
        tot = quad(dens, 0, 1, points=pts, epsabs=1e-13, epsrel=1e-13, limit=200)[0]
        out = [0.0]
        for i in range(1, N):
            target = i / N * tot
            out.append(brentq(lambda s: quad(dens, 0, s, points=[p for p in pts if p < s] or None, epsabs=1e-13, epsrel=1e-13, limit=200)[0] - target, 0, 1, xtol=1e-14))
        out.append(1.0)
        return np.array(out), 2e-5
    return ref.normalized_grid(g, N), 1e-9 if g["cls"] != "density" else 2e-5


def check(case, ctx):
    sp = case["spec"]
    m = sp["method"]
    g = m["grid"]
    N, M = m["N"], m["M"]
    rng = np.random.default_rng(case["rng"])
    feats = {"grid": g["cls"], "localize_t0": bool(g.get("localize_t0")), "localize_T": bool(g.get("localize_T")), "bounds": ("min" in g or "max" in g),
             "T": sp["T"][0], "t0": sp["t0"][0], "method": m["cls"]}
    if g["cls"] == "geometric":
        feats["local"] = bool(g.get("local"))
    # horizon values under test: variables are set to the starred values, numbers/parameters are what they are
    B = build(sp)
    ocp = B.ocp
    nlp = NLP(ocp)
    probes = obs.stage_probes(B, "main", dc=False, intg=True)
    probes["t@control"] = ocp.sample(ocp.t, grid="control")[1]
    probes["t@integrator"] = ocp.sample(ocp.t, grid="integrator")[1]
    probes["DT@control"] = ocp.sample(ocp.DT, grid="control")[1]
    probes["DTc@control"] = ocp.sample(ocp.DT_control, grid="control")[1]
    probes["DT@integrator"] = ocp.sample(ocp.DT, grid="integrator")[1]
    probes["DTc@integrator"] = ocp.sample(ocp.DT_control, grid="integrator")[1]
    if m["cls"] != "SS" or True:
        r = 3
        try:
            probes["t_refined"], probes["t_refined_val"] = ocp.sample(ocp.t, grid="integrator", refine=r)
        except Exception:
            r = None
    if m["cls"] == "DC":
        probes["t_roots"], probes["t_roots_val"] = ocp.sample(ocp.t, grid="integrator_roots")
    nlp.add_all(probes)
    fails = []
    # classify decision variables
    phys_mx = [probes["main|sig:u0"], probes["main|sig:x0"][:, 0] if m["cls"] == "SS" else probes["main|sig:x0"]]
    if m["cls"] == "DC":
        phys_mx.append(ocp.sample(B.syms["x0"], grid="integrator_roots")[1])
        phys_mx.append(ocp.sample(B.syms["x0"], grid="integrator")[1])
    if "clk" in B.syms:
        # the clock state is a physical quantity too (its own rows do not involve x0/u0, but they are not grid rows)
        phys_mx.append(probes["main|sig:clk"][:, 0] if m["cls"] == "SS" else probes["main|sig:clk"])
        if m["cls"] == "DC":
            phys_mx.append(ocp.sample(B.syms["clk"], grid="integrator_roots")[1])
            phys_mx.append(ocp.sample(B.syms["clk"], grid="integrator")[1])
    phys = np.zeros(nlp.nx, dtype=bool)
    phys[time_like_vars(nlp, phys_mx)] = True
    Tcol = time_like_vars(nlp, [probes["main|T"]]) if sp["T"][0] == "free" else np.zeros(0, dtype=int)
    t0col = time_like_vars(nlp, [probes["main|t0"]]) if sp["t0"][0] == "free" else np.zeros(0, dtype=int)
    if len(Tcol) > 1 or len(t0col) > 1:
        raise HarnessInconclusive("horizon depends on several variables")
    tcols = np.nonzero(~phys)[0]
    loc = np.array([c for c in tcols if c not in set(Tcol) | set(t0col)], dtype=int)
    sens = nlp.jac_sparsity()
    trow = np.nonzero(~sens[:, phys].any(axis=1))[0] if sens.size else np.zeros(0, dtype=int)
    # linear model of the time rows
    Jf = ca.Function("J", [nlp.x, nlp.p], [ca.jacobian(nlp.opti.g, nlp.x), nlp.opti.g, nlp.opti.lbg, nlp.opti.ubg])
    xa = rng.uniform(0.2, 1.2, nlp.nx)
    xb = rng.uniform(0.2, 1.2, nlp.nx)
    Ja, ga, lba, uba = [np.array(ca.DM(v)) for v in Jf(xa, nlp.p0)]
    Jb = np.array(ca.DM(Jf(xb, nlp.p0)[0]))
    ga, lba, uba = ga.reshape(-1), lba.reshape(-1), uba.reshape(-1)
    if len(trow) and not np.allclose(Ja[trow], Jb[trow], atol=1e-13):
        raise HarnessInconclusive("time rows are not linear")
    Tval = case["Tstar"] if sp["T"][0] == "free" else None
    t0val = case["t0star"] if sp["t0"][0] == "free" else None
    x = rng.uniform(-1, 1, nlp.nx)
    if len(Tcol):
        x[Tcol[0]] = Tval
    if len(t0col):
        x[t0col[0]] = t0val
    A = Ja[trow]
    b0 = ga[trow] - A @ xa          # g = A x + b0 on the time rows
    is_eq = np.isfinite(lba[trow]) & np.isfinite(uba[trow]) & (lba[trow] == uba[trow])
    nloc = len(loc)
    if nloc:
        Ae = A[is_eq][:, loc]
        fixedcols = [c for c in tcols if c not in set(loc)]
        rhs = lba[trow][is_eq] - b0[is_eq] - (A[is_eq][:, fixedcols] @ x[fixedcols] if fixedcols else 0)
        if Ae.shape[0] == 0:
            sol_loc, rank, resid = np.zeros(nloc), 0, 0.0
        else:
            sol_loc, _, rank, _ = np.linalg.lstsq(Ae, rhs, rcond=None)
            resid = float(np.max(np.abs(Ae @ sol_loc - rhs))) if len(rhs) else 0.0
        if resid > 1e-9:
            fails.append(Fail("grid-rows-inconsistent", feats, {"residual": resid, "T": Tval, "t0": t0val}))
            return fails
        if g["cls"] != "free":
            if rank != nloc:
                fails.append(Fail("grid-not-determined", feats, {"local_time_variables": nloc, "rank_of_grid_equalities": int(rank)}))
                return fails
        else:
            # FreeGrid: move inside the solution space to random interval lengths
            if Ae.shape[0]:
                _, s_, Vt = np.linalg.svd(Ae)
                null = Vt[rank:].T
            else:
                null = np.eye(nloc)
            if null.shape[1]:
                sol_loc = sol_loc + null @ rng.uniform(-0.3, 0.3, null.shape[1])
        x[loc] = sol_loc
    res = nlp.eval(x)
    T = float(res["main|T"].reshape(-1)[0])
    t0 = float(res["main|t0"].reshape(-1)[0])
    tk = res["main|tk"].reshape(-1)
    ctx.count("numeric_points")
    if len(tk) != N + 1:
        fails.append(Fail("control-grid-length", feats, {"len": len(tk), "N": N}))
        return fails
    if sp["T"][0] == "free" and not close(T, Tval, 1e-12, 1e-12):
        raise HarnessInconclusive("could not set T")
    # (1) the control grid
    if not close(tk[0], t0, 1e-10, 1e-11) or not close(tk[-1], t0 + T, 1e-10, 1e-10):
        fails.append(Fail("grid-endpoints", feats, {"tk0": tk[0], "tkN": tk[-1], "t0": t0, "tf": t0 + T}))
    if g["cls"] != "free":
        nrm, tol = reference_normalized(g, N)
        want = t0 + T * nrm
        if not close(tk, want, rtol=tol, atol=tol):
            fails.append(Fail("grid-locations", feats, {"sampled": tk, "reference": want}))
        if T > 0 and not np.all(np.diff(tk) > 0):
            fails.append(Fail("grid-not-increasing", feats, {"sampled": tk}))
    if fails:
        return fails
    # (2) integrator grid and sampled t / DT / DT_control
    ti = res["main|ti"].reshape(-1)
    want_ti = np.concatenate([tk[k] + (tk[k + 1] - tk[k]) * np.arange(M) / M for k in range(N)] + [[tk[-1]]])
    if not close(ti, want_ti, 1e-10, 1e-11):
        fails.append(Fail("integrator-grid", feats, {"sampled": ti, "reference": want_ti}))
    if not close(res["t@control"].reshape(-1), tk, 1e-12, 1e-12) or not close(res["t@integrator"].reshape(-1), ti, 1e-12, 1e-12):
        fails.append(Fail("sampled-t", feats, {"t@control": res["t@control"].reshape(-1), "tk": tk}))
    dtc = np.diff(tk)
    want_dtc_ctrl = np.concatenate([dtc, dtc[-1:]])
    if not close(res["DTc@control"].reshape(-1), want_dtc_ctrl, 1e-10, 1e-11):
        fails.append(Fail("DT_control", feats, {"sampled": res["DTc@control"].reshape(-1), "reference": want_dtc_ctrl}))
    if not close(res["DT@control"].reshape(-1), want_dtc_ctrl / M, 1e-10, 1e-11):
        fails.append(Fail("DT", feats, {"sampled": res["DT@control"].reshape(-1), "reference": want_dtc_ctrl / M}))
    want_dtc_int = np.concatenate([np.repeat(dtc, M), dtc[-1:]])
    if not close(res["DTc@integrator"].reshape(-1), want_dtc_int, 1e-10, 1e-11) or not close(res["DT@integrator"].reshape(-1), want_dtc_int / M, 1e-10, 1e-11):
        fails.append(Fail("DT-on-integrator-grid", feats, {"DT": res["DT@integrator"].reshape(-1), "DT_control": res["DTc@integrator"].reshape(-1), "reference_DT_control": want_dtc_int}))
    if m["cls"] == "SS" and "main|sig:clk" in res:
        # under SingleShooting node states are propagated: a clock state (dx/dt = 1, exact for every scheme) must advance by exactly the
        # control-interval lengths the integrator was given
        ck = res["main|sig:clk"].reshape(-1)
        if not close(ck - ck[0], tk - tk[0], 1e-9, 1e-10):
            fails.append(Fail("integrator-step-lengths", feats, {"clock_advance": ck - ck[0], "control_grid_advance": tk - tk[0]}))
    if "t_roots" in res:
        # collocation times: every integrator step carries its own points t_step + tau_j * (length of that step)
        tau = ref.Colloc(m["degree"], m["scheme"]).tau
        want_roots = np.concatenate([ti[j] + (ti[j + 1] - ti[j]) * tau for j in range(N * M)])
        tr_ = res["t_roots"].reshape(-1)
        if not close(tr_, want_roots, 1e-10, 1e-11):
            fails.append(Fail("root-times", feats, {"sampled": tr_, "reference": want_roots}))
        elif not close(res["t_roots_val"].reshape(-1), tr_, 1e-12, 1e-12):
            fails.append(Fail("sampled-t-roots", feats, {"sample(t)": res["t_roots_val"].reshape(-1), "time_vector": tr_}))
    if "t_refined" in res:
        r = 3
        tr_ = res["t_refined"].reshape(-1)
        want_tr = np.concatenate([ti[j] + (ti[j + 1] - ti[j]) * np.arange(r) / r for j in range(N * M)] + [[ti[-1]]])
        if not close(tr_, want_tr, 1e-10, 1e-11):
            fails.append(Fail("refined-time", feats, {"sampled": tr_, "reference": want_tr}))
        elif not close(res["t_refined_val"].reshape(-1), tr_, 1e-12, 1e-12):
            fails.append(Fail("sampled-t-refined", feats, {"sample(t)": res["t_refined_val"].reshape(-1), "time_vector": tr_}))
    # (3) min / max enforcement (only where the interval lengths are decided by variables)
    has_time_vars = len(tcols) > 0
    # interval lengths are decided by variables only with a free T or a FreeGrid (otherwise they are parametric
    # and no NLP constraint can express the bound)
    if ("min" in g or "max" in g) and has_time_vars and (sp["T"][0] == "free" or g["cls"] == "free"):
        lo, hi = g.get("min", 0.0), g.get("max", math.inf)
        within = bool(np.all(dtc >= lo - 1e-12) and np.all(dtc <= hi + 1e-12))
        margin = min(np.min(dtc - lo), np.min(hi - dtc)) if np.isfinite(hi) else np.min(dtc - lo)
        gt, lbt, ubt = res["g"][trow], res["lbg"][trow], res["ubg"][trow]
        rows_ok = bool(np.all(gt >= lbt - 1e-10) and np.all(gt <= ubt + 1e-10))
        ctx.count("bound_cases")
        if abs(margin) > 1e-6 and within != rows_ok:
            fails.append(Fail("interval-bounds", dict(feats, direction="not-enforced" if rows_ok else "over-restrictive"),
                              {"interval_lengths": dtc, "min": lo, "max": hi, "lengths_within_bounds": within, "grid_rows_satisfied": rows_ok, "time_rows": len(trow)}))
    return fails


TECHNIQUE = "property-based testing (Hypothesis) over the grid-configuration table: closed-form grid locations / CDF inversion as oracle, linear solve of the grid's own NLP rows, bound-enforcement equivalence"
LEVEL_TEXT = ("Generated exploration of the configuration table (grid class x options x N x M x horizon kind x method) with closed-form reference grids; for localized/free grids the time "
              "variables are obtained by solving the grid's own NLP rows, which must be consistent and (fixed patterns) uniquely solvable; min/max are checked as an equivalence between "
              "interval lengths and satisfaction of the grid's inequality rows.")
LEVEL_NOTE = "Trusted: CasADi evaluation; scipy quad/brentq for density CDF inversion (tolerance 2e-6 there because rockit itself inverts with bisection)."
