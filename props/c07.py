"""C07 - sampling commutes with expression evaluation on every grid."""
import copy
import numpy as np
import casadi as ca
from hypothesis import strategies as st

from vlib import gen, ref, obs
from vlib import expr as E
from vlib.build import build, vec_expr
from vlib.core import Fail, HarnessInconclusive
from vlib.nlp import NLP, close, time_like_vars, random_points, DMa

ID = "C07"
LEVEL = "exploration"
BUDGET = {"quick": (8, 90), "thorough": (16, 2000)}
K = 2
SHAPES = [(1, 1), (1, 1), (2, 1), (3, 1), (1, 2), (1, 3), (2, 2), (2, 3)]
RULE = ("Generated OCP (all sampling methods/grids/horizons) and a generated expression of shape 1x1, n x 1, 1 x n or n x m over states, quadrature states, controls, "
        "algebraic values, time, parameters and variables of every kind, T and t0; sampled on control, control-/-control, integrator, integrator+refine 1..4 and "
        "integrator_roots. Oracles: sample(e)[i] == e(sample(ingredients)[i], time[i]) at 2 random decision vectors; len(time) == number of sampled points; "
        "parameters sample to their set values; raw per-interval/per-node ingredients (and states/algebraic values at every collocation point) are distinct decision variables; sol.sample / sol.value of a zero-iteration solve equal the "
        "symbolic map at the solver's vector with shape (time, *non-singleton dims) and entry [i,r,c] = element (r,c). "
        "Non-trivial = non-scalar expression, or grid != control, or per-interval/algebraic/quadrature ingredient; distinct = SHA-1 of the case JSON.")
ASSUMPTIONS = ["raw ingredient samples on the control / collocation grids are tied to the NLP's own rows by C01/C02"]


@st.composite
def strategy_(draw):
    sp = draw(gen.base_ocp(quad=True, discrete_prob=1, alg_odds=(2, 3)))
    m = sp["method"]
    dc = m["cls"] == "DC"
    discrete = bool(sp.get("next"))
    grids = [("control", 3), ("control-", 2), ("integrator", 3)]
    if not discrete:
        grids.append(("refine", 3))
    if dc:
        grids.append(("integrator_roots", 6 if sp.get("algebraics") else 3))
    gname = gen.weighted(draw, grids)
    kw = {}
    if gname == "refine":
        gname = "integrator"
        kw["refine"] = draw(st.integers(1, 4))
    leaves = gen.signal_leaves(sp)
    quads = gen.leaves_of([d for d in sp["states"] if d.get("quad")])
    if quads and gname in ("control", "control-", "-control", "integrator") and (not kw or not dc):
        leaves = leaves + quads
    algs = gen.leaves_of(sp.get("algebraics", [])) if dc and gname == "integrator_roots" else []
    leaves = leaves + algs
    per_interval = gen.leaves_of([d for d in sp["params"] + sp["vars"] if d.get("grid", "") != ""])
    r, c = draw(st.sampled_from(SHAPES))
    exprs = []
    for _ in range(r * c):
        e = draw(gen.free_expr(leaves, depth=2))
        if draw(st.integers(0, 5)) == 0:
            e = ["+", e, ["*", E.C(draw(gen.small())), draw(st.sampled_from([["T"], ["t0"], ["tf"]]))]]
        if algs and draw(st.booleans()):
            e = [draw(st.sampled_from(["+", "*"])), e, draw(st.sampled_from(algs))]
        if per_interval and draw(st.booleans()):
            # per-interval / per-node parameters and variables: which column applies at a point is the interesting part
            e = ["+", e, ["*", E.C(draw(gen.small())), draw(st.sampled_from(per_interval))]]
        exprs.append(e)
    # a non-signal expression for value()
    globs = gen.leaves_of([d for d in sp["params"] + sp["vars"] if d.get("grid", "") == ""])
    nv = []
    for _ in range(draw(st.integers(1, 2))):
        parts = [[draw(st.sampled_from(["at_t0", "at_tf"])), draw(gen.free_expr(gen.signal_leaves(sp), depth=1))]]
        if globs:
            parts.append(draw(st.sampled_from(globs)))
        parts.append(draw(st.sampled_from([["T"], ["t0"], ["tf"], E.C(0.5)])))
        e = parts[0]
        for p in parts[1:]:
            e = [draw(st.sampled_from(["+", "*", "-"])), e, p]
        nv.append(e)
    guesses = {d["name"]: draw(gen.small()) for d in sp["states"] + sp["controls"] + sp["vars"] if not d.get("quad")}
    if draw(st.integers(0, 3)) == 0:
        # a second stage with its own model, grid and horizon: sol(stage) must read that stage back
        sp["substages"] = [{"name": "s1", "t0": ["num", draw(st.sampled_from([0.0, 2.0]))], "T": draw(st.sampled_from([["num", 1.0], ["free", 0.75]])),
                            "states": [{"name": "s1x0", "rows": 2, "cols": 1}], "controls": [{"name": "s1u0", "rows": 1, "cols": 1}], "params": [], "vars": [], "algebraics": [],
                            "der": [["s1x0", [["-", E.S("s1u0"), E.S("s1x0", 0)], ["*", E.S("s1x0", 0), ["sin", ["t"]]]]]],
                            "method": {"cls": draw(st.sampled_from(["MS", "DC"])), "N": draw(st.integers(1, 3)), "M": draw(st.integers(1, 2)), "intg": "rk", "degree": 2, "scheme": "radau", "grid": {"cls": draw(st.sampled_from(["uniform", "geometric"])), "growth": 2.0}},
                            "objective": [["int", ["+", ["sq", E.S("s1u0")], ["sq", E.S("s1x0", 1)]]]], "constraints": []}]
    return {"spec": sp, "expr": exprs, "shape": [r, c], "grid": gname, "kw": kw, "value_exprs": nv, "guesses": guesses, "rng": draw(st.integers(0, 2**31 - 1))}


def strategy(tier):
    return strategy_()


def ingredient_kinds(case):
    sp = case["spec"]
    names = set()
    for e in case["expr"]:
        names |= E.syms_in(e)
    kinds = set()
    for d in sp["states"]:
        if d["name"] in names:
            kinds.add("quad" if d.get("quad") else "state")
    for d in sp.get("algebraics", []):
        if d["name"] in names:
            kinds.add("alg")
    for d in sp["params"] + sp["vars"]:
        if d["name"] in names and d.get("grid", "") != "":
            kinds.add("per-interval")
    return kinds


def nontrivial(case):
    r, c = case["shape"]
    return bool(r * c > 1 or case["grid"] != "control" or case["kw"] or (ingredient_kinds(case) & {"quad", "alg", "per-interval"}))


def classify(case):
    m = case["spec"]["method"]
    g = case["grid"] + ("+refine" if case["kw"] else "")
    r, c = case["shape"]
    shape = "scalar" if r * c == 1 else ("column" if c == 1 else ("row" if r == 1 else "matrix"))
    return ["method:" + m["cls"], "sgrid:" + g, "shape:" + shape] + ["ingredient:" + k for k in sorted(ingredient_kinds(case))]


def abbreviate(case):
    return {"method": case["spec"]["method"], "grid": case["grid"], "kw": case["kw"], "shape": case["shape"], "expr": case["expr"][:2], "rng": case["rng"]}


def n_points(grid, kw, N, M, deg):
    if grid == "control":
        return N + 1
    if grid in ("control-", "-control"):
        return N
    if grid == "integrator":
        return N * M * kw.get("refine", 1) + 1
    if grid == "integrator_roots":
        return N * M * deg
    raise ValueError(grid)


def check(case, ctx):
    sp = copy.deepcopy(case["spec"])
    m = sp["method"]
    N, M = m["N"], m["M"]
    deg = m.get("degree", 0)
    r, c = case["shape"]
    grid, kw = case["grid"], dict(case["kw"])
    rng = np.random.default_rng(case["rng"])
    feats = {"method": m["cls"], "sgrid": grid, "refine": bool(kw), "shape": "%dx%d" % (r, c)}
    sp["solver"] = ["ipopt", {"ipopt.max_iter": 0}]
    # every variable must occur in the problem, otherwise Opti has no solver value for it
    sp["objective"] = gen.activation_objective(sp)
    B = build(sp)
    ocp = B.ocp
    nlp = NLP(ocp)
    e_mx = vec_expr(B, case["expr"], r, c, ocp)
    fails = []
    ts, es = ocp.sample(e_mx, grid=grid, **kw)
    npts = n_points(grid, kw, N, M, deg)
    nt = ca.MX(ts).numel()
    ncols = ca.MX(es).shape[1]
    if nt != npts or ncols != npts * c or ca.MX(es).shape[0] != r:
        fails.append(Fail("sample-shape", feats, {"len_time": nt, "value_columns": ncols, "rows": ca.MX(es).shape[0], "expected_points": npts, "expr_shape": [r, c]}))
        return fails
    names = sorted(set().union(*[E.syms_in(e) for e in case["expr"]]))
    probes = {"time": ts, "e": es, "T": ocp.value(ocp.T), "t0": ocp.value(ocp.t0)}
    for n in names:
        probes["ing:" + n] = ocp.sample(ca.vec(B.syms[n]), grid=grid, **kw)[1]
    for i, ve in enumerate(case["value_exprs"]):
        probes["val:%d" % i] = ocp.value(E.to_ca(ve, B, ocp))
    # every state and quadrature state of the stage on the unrefined integrator grid (whatever the generated expression uses)
    node_names = [n for n, d in B.decl.items() if d["kind"] in ("state", "qstate") and d["stage"] == "main"]
    for n in node_names:
        probes["intg:" + n] = ocp.sample(ca.vec(B.syms[n]), grid="integrator")[1]
    stage_pr = obs.stage_probes(B, "main", dc=False)
    probes.update(stage_pr)
    nlp.add_all(probes)
    tl = time_like_vars(nlp, [stage_pr["main|tk"], stage_pr["main|T"]])
    X = random_points(nlp, rng, K, time_like=tl)
    R = ref.StageRef(sp)
    for i in range(K):
        res = nlp.eval(X[i])
        T, t0 = float(res["T"].reshape(-1)[0]), float(res["t0"].reshape(-1)[0])
        tv = res["time"].reshape(-1)
        ev = res["e"]
        for pt in range(npts):
            vals = {n: res["ing:" + n][:, pt] for n in names}
            env = E.Env(vals, t=tv[pt], T=T, t0=t0)
            want = np.array([E.ev(e, env) for e in case["expr"]]).reshape((c, r)).T   # flat list is column-major
            got = ev[:, pt * c:(pt + 1) * c]
            if not np.all(np.isfinite(want)):
                raise HarnessInconclusive("reference overflow")
            if not close(got, want, rtol=1e-9, atol=1e-9):
                fails.append(Fail("homomorphism", feats, {"point": pt, "sampled": got, "expected": want, "time": tv[pt]}))
                break
        # parameters must sample to the values that were set
        data = ref.override_params({"sig": {}, "glob": {}}, sp, N)
        for n in names:
            d = B.decl[n]
            if d["kind"] != "param":
                continue
            got = res["ing:" + n]
            if d.get("grid", "") == "":
                want = np.repeat(data["glob"][n].reshape(-1, 1), npts, axis=1)
            else:
                full = data["sig"][n]     # numel x (N+1) ; column N = value applying at the final node
                if grid == "control":
                    idx = list(range(N + 1))
                elif grid in ("control-", "-control"):
                    idx = list(range(N))
                elif grid == "integrator":
                    per = M * kw.get("refine", 1)
                    idx = [p // per for p in range(npts - 1)] + [N]
                else:
                    idx = [p // (M * deg) for p in range(npts)]
                want = full[:, idx]
            if not close(got, want, rtol=1e-12, atol=1e-12):
                fails.append(Fail("parameter-sample", dict(feats, pgrid=d.get("grid", "")), {"name": n, "sampled": got, "expected": want}))
        # interval-wise constant ingredients (controls, per-interval variables) on a finer grid take the value of
        # the control interval the point lies in; per-node variables that of the interval's start node
        if grid in ("integrator", "integrator_roots"):
            per = (M * kw.get("refine", 1)) if grid == "integrator" else M * deg
            idx = [p // per for p in range(npts)]
            if grid == "integrator":
                idx[-1] = N    # final node
            for n in names:
                d = B.decl[n]
                if d["kind"] == "control" or (d["kind"] == "var" and d.get("grid", "") in ("control", "control+")):
                    onctrl = res["main|sig:" + n]
                    want = onctrl[:, idx]
                    if not close(res["ing:" + n], want, rtol=1e-12, atol=1e-12):
                        fails.append(Fail("cross-grid-ingredient", dict(feats, kind=d["kind"], vgrid=d.get("grid")), {"name": n, "on_grid": res["ing:" + n], "from_control_grid": want}))
        # states and quadrature states: the points of the unrefined integrator grid that are control nodes carry the node values.
        # (With refine= the points come from each step's dense output, which away from feasibility ends off the next node: not compared.)
        for n in node_names:
            d = B.decl[n]
            if ("main|sig:" + n) in res:
                got_nodes = res["intg:" + n][:, [k * M for k in range(N + 1)]]
                if not close(got_nodes, res["main|sig:" + n], rtol=1e-10, atol=1e-10):
                    fails.append(Fail("node-values-on-integrator-grid", dict(feats, quad=bool(d.get("quad"))), {"name": n, "on_integrator_grid_at_nodes": got_nodes, "on_control_grid": res["main|sig:" + n]}))
        # value() of non-signal expressions
        cdata = ref.override_params(obs.unpack(res, "main"), sp, N)
        tr = ref.Traj(R, cdata, M)
        for j, ve in enumerate(case["value_exprs"]):
            want = ref.ev_top(ve, tr)
            got = float(res["val:%d" % j].reshape(-1)[0])
            if np.isfinite(want) and not close(got, want, rtol=1e-9, atol=1e-9):
                fails.append(Fail("value", feats, {"expr": ve, "value": got, "expected": want}))
        if fails:
            return fails
    ctx.count("numeric_points", K * npts)
    # raw per-interval / per-node ingredients are distinct decision variables (control grid)
    if m["cls"] != "SS" or True:
        for lab, mx in stage_pr.items():
            if "|sig:" not in lab:
                continue
            d = B.decl[lab.split(":", 1)[1]]
            if d["kind"] == "param" or d["kind"] == "qstate" or (d["kind"] == "state" and m["cls"] == "SS"):
                continue
            allv = ca.vertcat(nlp.x, nlp.inactive)   # Opti's x holds only variables occurring in f or g
            J = np.array(ca.DM(ca.jacobian(ca.vec(ca.MX(mx)), allv).sparsity(), 1))   # (numel*(N+1)) x nvars
            J = J.reshape((N + 1, d["rows"] * d["cols"], allv.numel())) if J.size else J
            if not J.size:
                continue
            sets = [frozenset(np.nonzero(J[k].sum(axis=0))[0]) for k in range(N + 1)]
            pernode = d["kind"] == "state" or d.get("grid") == "control+"
            distinct = len(set(sets[:N + 1 if pernode else N]))
            want = (N + 1) if pernode else N
            if distinct != want or (not pernode and sets[N] != sets[N - 1]):
                fails.append(Fail("raw-structure", dict(feats, kind=d["kind"], vgrid=d.get("grid")), {"name": d["name"], "distinct_columns": distinct, "expected": want}))
    if m["cls"] == "DC" and sp.get("algebraics"):
        # algebraic values live at the collocation points; at grid nodes rockit reports the value of the polynomial through them:
        # at a step's start the first step of the interval evaluated at local time 0, at the final node the last step evaluated at 1
        from vlib import ref as _ref
        deg_ = m["degree"]
        zb_ = _ref.lagrange_basis(_ref.Colloc(deg_, m["scheme"]).tau)
        for dz in sp["algebraics"]:
            zs = ca.vec(B.syms[dz["name"]])
            zp = {"zr": ocp.sample(zs, grid="integrator_roots")[1], "zc": ocp.sample(zs, grid="control")[1], "zi": ocp.sample(zs, grid="integrator")[1]}
            nz_ = NLP(ocp)
            nz_.add_all(zp)
            rz = nz_.eval(X[0][:nz_.nx] if len(X[0]) >= nz_.nx else np.resize(X[0], nz_.nx))
            zr = rz["zr"]
            at = lambda step, s_: sum(zr[:, step * deg_ + j] * zb_[j](s_) for j in range(deg_))
            want_i = np.column_stack([at(st_, 0.0) for st_ in range(N * M)] + [at(N * M - 1, 1.0)])
            want_c = np.column_stack([at(k * M, 0.0) for k in range(N)] + [at(N * M - 1, 1.0)])
            if not close(rz["zc"], want_c, 1e-8, 1e-9):
                fails.append(Fail("algebraic-at-nodes", dict(feats, on="control"), {"sampled": rz["zc"], "polynomial_through_collocation_values": want_c}))
            elif not close(rz["zi"], want_i, 1e-8, 1e-9):
                fails.append(Fail("algebraic-at-nodes", dict(feats, on="integrator"), {"sampled": rz["zi"], "polynomial_through_collocation_values": want_i}))
        ctx.count("algebraic_node_checks")
    if m["cls"] == "DC" and grid == "integrator_roots":
        # every collocation point carries its own state and algebraic value: raw samples there are pairwise different decision variables
        allv = ca.vertcat(nlp.x, nlp.inactive)
        for d in [x for x in sp["states"] if not x.get("quad")] + sp.get("algebraics", []):
            n = d["name"]
            d = B.decl[n]
            numel = d["rows"] * d["cols"]
            raw = ocp.sample(ca.vec(B.syms[n]), grid=grid)[1]
            J = np.array(ca.DM(ca.jacobian(ca.vec(ca.MX(raw)), allv).sparsity(), 1))
            if not J.size:
                continue
            J = J.reshape((npts, numel, allv.numel()))
            sets = [frozenset(np.nonzero(J[k].sum(axis=0))[0]) for k in range(npts)]
            if len(set(sets)) != npts:
                dup = [k for k in range(npts) if sets[k] in sets[:k]]
                fails.append(Fail("raw-structure-roots", dict(feats, kind=d["kind"]), {"name": n, "distinct_points": len(set(sets)), "expected": npts, "first_repeated_point": dup[:1]}))
    if fails:
        return fails
    # numeric read-back
    try:
        # harness-only positioning of the solver's start (guesses themselves are C10's subject)
        if nlp.opti.nx:
            nlp.opti.set_initial(nlp.opti.x, X[0])
        sol = ocp.solve_limited()
    except Exception as ex:
        raise HarnessInconclusive("solver refused start point: %s" % str(ex)[:60])
    opti = ocp._method.opti
    xs = DMa(sol.sol.value(opti.x)).reshape(-1) if opti.nx else np.zeros(0)
    res = nlp.eval(xs)
    tn, vn = sol.sample(e_mx, grid=grid, **kw)
    tn = np.asarray(tn).reshape(-1)
    vn = np.asarray(vn)
    want_shape = (npts,) + tuple(s for s in (r, c) if s != 1)
    if vn.shape != want_shape or tn.shape != (npts,):
        fails.append(Fail("numeric-shape", feats, {"time_shape": list(tn.shape), "value_shape": list(vn.shape), "expected": list(want_shape)}))
        return fails
    sym = res["e"]
    full = np.array([sym[:, pt * c:(pt + 1) * c] for pt in range(npts)])     # npts x r x c
    if not close(vn.reshape(full.shape), full, rtol=1e-9, atol=1e-10):
        fails.append(Fail("numeric-readback", feats, {"sol.sample": vn, "symbolic_at_x": full.reshape(want_shape)}))
    if not close(tn, res["time"].reshape(-1), rtol=1e-12, atol=1e-12):
        fails.append(Fail("numeric-time", feats, {"sol": tn, "symbolic": res["time"].reshape(-1)}))
    for j, ve in enumerate(case["value_exprs"]):
        got = float(sol.value(E.to_ca(ve, B, ocp)))
        want = float(res["val:%d" % j].reshape(-1)[0])
        if not close(got, want, rtol=1e-9, atol=1e-10):
            fails.append(Fail("numeric-value", feats, {"sol.value": got, "symbolic_at_x": want}))
    ctx.count("solves")
    if sp.get("substages"):
        # sol(stage) is the same map, applied to that stage
        s1 = B.stages["s1"]
        es1 = ca.vertcat(B.syms["s1x0"][1] * B.syms["s1u0"], B.syms["s1x0"][0] + s1.t)
        for g1 in ("control", "integrator"):
            t_sym, v_sym = s1.sample(es1, grid=g1)
            F1 = ca.Function("F1", [nlp.x, nlp.p], [t_sym, v_sym], {"allow_free": True})
            if F1.has_free():
                raise HarnessInconclusive("sub-stage sample has inactive symbols")
            tw, vw = [DMa(o) for o in F1(xs, nlp.p0)]
            tn1, vn1 = sol(s1).sample(es1, grid=g1)
            npt = tw.size
            if np.asarray(vn1).shape != (npt, 2) or not close(np.asarray(vn1), vw.T, 1e-9, 1e-10) or not close(np.asarray(tn1).reshape(-1), tw.reshape(-1), 1e-12, 1e-12):
                fails.append(Fail("substage-readback", dict(feats, sub_grid=g1, sub_method=sp["substages"][0]["method"]["cls"]), {"sol(stage).sample": np.asarray(vn1), "symbolic_at_x": vw.T}))
        ctx.count("substage_readbacks")
    return fails


TECHNIQUE = "property-based testing (Hypothesis): metamorphic homomorphism sample(e) == e(sample(ingredients)) on every grid, plus shape/round-trip oracle on numeric read-back"
LEVEL_TEXT = ("Generated-input exploration with a homomorphism oracle evaluated by an independent numpy interpreter at random decision vectors, known parameter values, a structural "
              "distinct-variable check on raw samples, and a zero-iteration solve for sol.sample / sol.value shapes and values.")
LEVEL_NOTE = "Trusted: CasADi evaluation of rockit's symbolic samples; the numpy expression interpreter in vlib/expr.py."
