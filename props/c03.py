"""C03 - discretised dynamics and integrals converge to the continuous-time model."""
import copy
import math
import numpy as np
import casadi as ca
from hypothesis import strategies as st

from vlib import gen, ref, obs
from vlib import expr as E
from vlib.build import build
from vlib.core import Fail, HarnessInconclusive
from vlib.nlp import NLP, close, time_like_vars, DMa
from props import c08

ID = "C03"
LEVEL = "exploration"
BUDGET = {"quick": (8, 16), "thorough": (16, 300)}
MS_ = [1, 2, 4, 8]
FLOOR = 2e-11
RULE = ("Generated smooth ODEs (1-2 states, bounded nonlinear right-hand sides with explicit t, a global parameter and a piecewise-constant input entered as per-interval parameter so that the NLP is a "
        "square system; optional index-1 algebraic equation under DirectCollocation), initial state, horizon (t0, T<=1.5), grid class, N 2..4 x scheme in {SS/MS rk, expl_euler, DC degree 1..4 radau|legendre, "
        "MS cvodes, MS collocation(builtin)} x M in {1,2,4,8}. The discrete trajectory is obtained by Newton on the NLP's own dynamic rows from the given initial state. Oracle: scipy DOP853 "
        "(rtol=atol=1e-13, restarted at control nodes) flow and integral; error(M=8) <= error(M=1); observed order log2(e(M)/e(2M)) of the finest pair above a 2e-11 floor >= classical order - 0.7 "
        "(1, 4, 2d-1, 2d); builtin integrators within 100x the requested tolerance 1e-9; discrete_system reproduces the NLP's own step and sys_simulator the reference flow. "
        "Non-trivial = explicit t, non-uniform grid, DAE or degree != 4; distinct = SHA-1 of case JSON.")
ASSUMPTIONS = ["the generated family is smooth with Lipschitz constant <= ~4, so M=4 -> 8 is in the asymptotic range for h <= 0.2", "only lower bounds on the observed order are asserted"]


@st.composite
def strategy_(draw):
    n = draw(st.integers(1, 2))
    scheme = gen.weighted(draw, [("rk", 3), ("expl_euler", 2), ("dc", 5), ("cvodes", 1), ("collocation", 1)])
    dae = scheme == "dc" and draw(st.integers(0, 3)) == 0
    states = [{"name": "x0", "rows": n, "cols": 1}]
    params = [{"name": "pg", "rows": 1, "cols": 1, "grid": ""}, {"name": "uc", "rows": 1, "cols": 1, "grid": "control"}]
    algs = [{"name": "z0", "rows": 1, "cols": 1}] if dae else []
    tab = {"states": states, "controls": [], "params": params, "vars": [], "algebraics": algs}
    sp = {"name": "main"}
    sp.update(tab)
    sp["der"] = gen.dynamics(draw, tab, t_prob=8)
    if dae:
        lv = gen.leaves_of(states)
        h = draw(gen.bounded_expr(lv, nterms=(1, 2)))
        z = E.S("z0")
        sp["alg"] = [[["-", ["+", z, ["*", E.C(0.25), ["tanh", z]]], h]]]
        sp["alg_h"] = h
    N = draw(st.integers(2, 4))
    grid = draw(gen.grid(classes=("uniform", "geometric", "function"), localize=False))
    if scheme == "dc":
        m = {"cls": "DC", "N": N, "degree": draw(st.sampled_from([1, 2, 3, 4])), "scheme": draw(st.sampled_from(["radau", "legendre"])), "grid": grid}
    else:
        m = {"cls": draw(st.sampled_from(["MS", "SS"])) if scheme in ("rk", "expl_euler") else "MS", "N": N, "intg": scheme, "grid": grid}
        if scheme in ("cvodes", "collocation"):
            m["intg_options"] = {"reltol": 1e-9, "abstol": 1e-11} if scheme == "cvodes" else {"number_of_finite_elements": 40, "interpolation_order": 4}
    sp["method"] = m
    sp["T"] = ["num", draw(st.sampled_from([0.5, 1.0, 1.5]))]
    sp["t0"] = ["num", draw(st.sampled_from([0.0, 1.0, -0.5]))]
    gen.fill_param_values(draw, sp, N)
    lv = gen.leaves_of(states)
    integrand = draw(gen.bounded_expr(lv, nterms=(1, 2)))
    sp["objective"] = [["int", integrand]]
    x0 = [draw(gen.small()) for _ in range(n)]
    return {"spec": sp, "x0": x0, "scheme": scheme, "rng": draw(st.integers(0, 2**31 - 1))}


def strategy(tier):
    return strategy_()


def classical_order(case):
    m = case["spec"]["method"]
    if case["scheme"] == "rk":
        return 4
    if case["scheme"] == "expl_euler":
        return 1
    if case["scheme"] == "dc":
        return 2 * m["degree"] - 1 if m["scheme"] == "radau" else 2 * m["degree"]
    return None


def nontrivial(case):
    sp = case["spec"]
    has_t = any(E.has_op(e, "t") for _, ex in sp["der"] for e in ex)
    return bool(has_t or gen.grid_nontrivial(sp["method"]["grid"]) or sp.get("alg") or (case["scheme"] == "dc" and sp["method"]["degree"] != 4))


def classify(case):
    m = case["spec"]["method"]
    lab = case["scheme"] if case["scheme"] != "dc" else "dc:%s-%d" % (m["scheme"], m["degree"])
    return ["scheme:" + lab, "method:" + m["cls"], "grid:" + m["grid"]["cls"]] + (["DAE"] if case["spec"].get("alg") else [])


def abbreviate(case):
    sp = case["spec"]
    return {"method": sp["method"], "T": sp["T"], "t0": sp["t0"], "der": sp["der"], "alg": sp.get("alg"), "integrand": sp["objective"], "x0": case["x0"], "rng": case["rng"]}


def exact(case):
    """Reference flow with scipy: state at tf and integral of the integrand."""
    from scipy.integrate import solve_ivp
    from scipy.optimize import brentq
    sp = case["spec"]
    R = ref.StageRef(sp)
    N = sp["method"]["N"]
    t0, T = sp["t0"][1], sp["T"][1]
    tk = ref.control_grid(sp["method"]["grid"], N, t0, T)
    pd = {d["name"]: d for d in sp["params"]}
    pg = np.array(pd["pg"]["value"], dtype=float).reshape(-1)
    uc = np.array(pd["uc"]["value"], dtype=float).reshape(-1)
    integrand = sp["objective"][0][1]
    h_alg = sp.get("alg_h")

    def zof(x, t, base):
        if not R.nz:
            return None
        vals = dict(base)
        R.split(R.states, x, vals)
        hv = E.ev(h_alg, E.Env(vals, t=t))
        g = lambda z: z + 0.25 * math.tanh(z) - hv
        return np.array([brentq(g, -10 - abs(hv), 10 + abs(hv), xtol=1e-15, rtol=1e-15)])
    x = np.array(case["x0"], dtype=float)
    I = 0.0
    for k in range(N):
        base = {"pg": pg, "uc": np.array([uc[k]])}

        def rhs(t, y):
            xx = y[:-1]
            z = zof(xx, t, base)
            f, _ = R.rhs(xx, base, t, z=z)
            vals = dict(base)
            R.split(R.states, xx, vals)
            return np.concatenate([f, [E.ev(integrand, E.Env(vals, t=t))]])
        sol = solve_ivp(rhs, [tk[k], tk[k + 1]], np.concatenate([x, [0.0]]), method="DOP853", rtol=1e-13, atol=1e-13)
        x = sol.y[:-1, -1]
        I += sol.y[-1, -1]
    return x, I, tk


def discrete(case, M, rng, want_nodes=False):
    sp = copy.deepcopy(case["spec"])
    sp.pop("alg_h", None)
    sp["method"]["M"] = M
    mcls = sp["method"]["cls"]
    B = build(sp)
    nlp = NLP(B.ocp)
    probes = obs.stage_probes(B, "main", dc=(mcls == "DC"), intg=(mcls != "DC"))
    nlp.add_all(probes)
    x = np.zeros(nlp.nx)
    # fix the initial state; everything else follows from the dynamic rows
    cols0 = time_like_vars(nlp, [probes["main|sig:x0"][:, 0]])
    n = len(case["x0"])
    if len(cols0) != n:
        raise HarnessInconclusive("initial state variables not identified")
    J0 = np.array(ca.DM(ca.jacobian(ca.vec(probes["main|sig:x0"][:, 0]), nlp.x).sparsity(), 1))
    for i in range(n):
        x[np.nonzero(J0[i])[0][0]] = case["x0"][i]
    xs = solve_dynamics(nlp, B, probes, mcls, x, cols0)
    res = nlp.eval(xs)
    out = {"xf": res["main|sig:x0"][:, -1], "I": res["f"], "nodes": res["main|sig:x0"], "tk": res["main|tk"].reshape(-1), "B": B, "nlp": nlp, "x": xs}
    return out


def solve_dynamics(nlp, B, probes, mcls, x, fixed_cols):
    dep_mx = []
    for lab, mx in probes.items():
        if "|sig:" in lab and B.decl[lab.split(":", 1)[1]]["kind"] == "state" and mcls != "SS":
            dep_mx.append(mx[:, 1:])
        if "|intg:" in lab and mcls == "DC":
            dep_mx.append(mx[:, 1:])
        if "|roots:" in lab and mcls == "DC":
            dep_mx.append(mx)
    if not dep_mx:
        return x
    dep = time_like_vars(nlp, dep_mx)
    sens = nlp.jac_sparsity()
    ev = nlp.eval(x)
    iseq = np.isfinite(ev["lbg"]) & (ev["lbg"] == ev["ubg"])
    rows = np.nonzero(iseq & sens[:, dep].any(axis=1))[0]
    if len(rows) != len(dep):
        raise HarnessInconclusive("dynamic rows (%d) and dependent variables (%d) do not match" % (len(rows), len(dep)))
    opti = nlp.opti
    G = ca.Function("G", [nlp.x, nlp.p], [opti.g[rows.tolist()] - opti.lbg[rows.tolist()], ca.jacobian(opti.g[rows.tolist()], nlp.x)[:, dep.tolist()]])
    nrm = None
    for it in range(40):
        g, J = G(x, nlp.p0)
        g = DMa(g).reshape(-1)
        nrm = np.max(np.abs(g)) if len(g) else 0.0
        if nrm < 1e-13:
            return x
        try:
            dx = np.linalg.solve(np.array(ca.DM(J)), g)
        except np.linalg.LinAlgError:
            raise HarnessInconclusive("singular Newton matrix")
        x[dep] -= dx
    if nrm < 1e-11:
        return x
    raise HarnessInconclusive("Newton did not converge")


def check(case, ctx):
    sp = case["spec"]
    rng = np.random.default_rng(case["rng"])
    p = classical_order(case)
    m = sp["method"]
    feats = {"scheme": case["scheme"] if case["scheme"] != "dc" else "%s-%d" % (m["scheme"], m["degree"]), "method": m["cls"], "tgrid": m["grid"]["cls"], "dae": bool(sp.get("alg"))}
    xe, Ie, tk = exact(case)
    if not (np.all(np.isfinite(xe)) and np.isfinite(Ie)):
        raise HarnessInconclusive("reference integration failed")
    fails = []
    builtin = case["scheme"] in ("cvodes", "collocation")
    Ms = [1, 2] if builtin else MS_
    errs, errI = {}, {}
    sx, sI = {}, {}          # signed errors
    last = None
    for M in Ms:
        d = discrete(case, M, rng)
        sx[M] = np.asarray(d["xf"] - xe, dtype=float)
        sI[M] = np.array([float(d["I"] - Ie)])
        errs[M] = float(np.max(np.abs(sx[M])))
        errI[M] = float(abs(sI[M][0]))
        last = d
        if not close(d["tk"], tk, 1e-9, 1e-10):
            fails.append(Fail("grid-differs-from-reference", feats, {"rockit": d["tk"], "reference": tk}))
            return fails
    ctx.count("transcriptions", len(Ms))
    if builtin:
        tol = 1e-9 if case["scheme"] == "cvodes" else 1e-7
        for M in Ms:
            if errs[M] > 100 * tol * (1 + np.max(np.abs(xe))):
                fails.append(Fail("builtin-integrator-accuracy", dict(feats, quantity="state"), {"M": M, "state_error": errs[M], "tolerance": tol}))
            if errI[M] > 100 * tol * (1 + abs(Ie)):
                fails.append(Fail("builtin-integrator-accuracy", dict(feats, quantity="integral"), {"M": M, "state_error": errs[M], "integral_error": errI[M], "tolerance": tol}))
    else:
        hmax1 = float(np.max(np.diff(tk)))
        for name, er, sg in (("state", errs, sx), ("integral", errI, sI)):
            # the error must vanish as M grows: clear divergence is a failure
            # (a small error at M=1 can be a lucky cancellation of error terms of opposite sign, so growth relative to M=1
            # counts only if the error is not clearly shrinking between the two finest discretisations either)
            if er[1] > 1e-8 and er[8] > 2.0 * er[1] and er[8] > 0.9 * er[4]:
                # M <= 8 can still be pre-asymptotic (large first-order steps, oscillating integrands): decide on a finer pair
                fine = {}
                for Mf in (16, 32):
                    df = discrete(case, Mf, rng)
                    fine[Mf] = float(np.max(np.abs(np.asarray(df["xf"] - xe, dtype=float)))) if name == "state" else float(abs(df["I"] - Ie))
                ctx.count("escalated_to_M32")
                if fine[32] > 2.0 * er[1] and fine[32] > 0.9 * fine[16]:
                    fails.append(Fail("error-grows-with-M", dict(feats, quantity=name), {"errors": {**er, **fine}}))
                continue
            # observed order on the two finest pairs whose (dominant-component) errors have the same sign and lie above the
            # round-off floor; a single sign change of the error (leading coefficient cancelling the next one) depresses at most
            # one of them, a genuinely lower order depresses both
            orders = []
            for a, b in ((4, 8), (2, 4), (1, 2)):
                i = int(np.argmax(np.abs(sg[a])))
                ea, eb = sg[a][i], sg[b][i]
                if abs(ea) > FLOOR * 50 and abs(eb) > FLOOR and ea * eb > 0 and hmax1 / a <= 0.25:
                    orders.append(((a, b), math.log2(abs(ea) / abs(eb))))
            if len(orders) < 2:
                ctx.count("order_not_measurable:" + name)
                continue
            ctx.count("orders_measured")
            (p1, o1), (p2, o2) = orders[0], orders[1]
            if o1 < p - 0.7 and o2 < p - 0.7:
                fails.append(Fail("observed-order-too-low", dict(feats, quantity=name), {"observed": {str(p1): o1, str(p2): o2}, "classical": p, "errors": er, "hmax_M1": hmax1}))
    if fails:
        return fails
    # discrete_system describes the NLP's own step; sys_simulator the reference flow
    d = last
    B, nlp = d["B"], d["nlp"]
    ocp = B.ocp
    pd = {dd["name"]: dd for dd in sp["params"]}
    pgv = float(np.array(pd["pg"]["value"]).reshape(-1)[0])
    ucv = np.array(pd["uc"]["value"], dtype=float).reshape(-1)
    if not sp.get("alg"):
        k = int(rng.integers(0, m["N"]))
        xk = d["nodes"][:, k]
        xf = None
        try:        # only the calls into rockit are guarded: what they raise is rockit's, everything after is the harness'
            F = ocp.discrete_system()
            out = F(x0=xk, u=ca.DM(0, 1), T=tk[k + 1] - tk[k], t0=tk[k], p=ca.vertcat(pgv, ucv[k]), z0=ca.DM(0, 1))
            xf = DMa(out["xf"]).reshape(-1)
        except Exception as ex:
            fails.append(Fail("discrete_system-raises", feats, {"message": str(ex).strip().splitlines()[-1][:140]}))
        if xf is not None:
            if m["cls"] != "DC":
                # for shooting methods discrete_system is the very map the NLP uses
                tol = 1e-9 if not builtin else 1e-6
                if not close(xf, d["nodes"][:, k + 1], tol, tol):
                    fails.append(Fail("discrete_system-differs-from-nlp-step", feats, {"interval": k, "discrete_system": xf, "nlp_next_node": d["nodes"][:, k + 1]}))
            # ... and in every case an approximation of the reference flow over that interval
            from scipy.integrate import solve_ivp
            R_ = ref.StageRef(sp)
            base_ = {"pg": np.array([pgv]), "uc": np.array([ucv[k]])}
            solk = solve_ivp(lambda t, y: R_.rhs(y, base_, t)[0], [tk[k], tk[k + 1]], np.array(xk, dtype=float), method="DOP853", rtol=1e-13, atol=1e-13)
            # how far a scheme of that kind is from the flow on this very interval is measured, not guessed: the numpy reference scheme
            # (explicit Euler, or RK4 for everything else: rockit's discrete_system of DirectCollocation is an RK map) with the same
            # number of sub-steps; discrete_system may be off by a small multiple of that, relative to the size of the state
            ref_scheme = "expl_euler" if case["scheme"] == "expl_euler" else "rk"
            xr_ = ref.propagate(R_, ref_scheme, np.array(xk, dtype=float), base_, tk[k], tk[k + 1], max(Ms))[0]
            scale_ = 1.0 + max(float(np.max(np.abs(xk))), float(np.max(np.abs(solk.y[:, -1]))))
            bound = 20.0 * float(np.max(np.abs(xr_ - solk.y[:, -1]))) + 1e-6 * scale_
            if float(np.max(np.abs(xf - solk.y[:, -1]))) > bound:
                fails.append(Fail("discrete_system-not-the-same-flow", feats, {"interval": k, "discrete_system": xf, "reference_flow": solk.y[:, -1], "bound": bound}))
        from scipy.integrate import solve_ivp
        R = ref.StageRef(sp)
        k = 0
        xk = np.array(case["x0"], dtype=float)
        base = {"pg": np.array([pgv]), "uc": np.array([ucv[k]])}
        sol = solve_ivp(lambda t, y: R.rhs(y, base, t)[0], [tk[0], tk[1]], xk, method="DOP853", rtol=1e-13, atol=1e-13)
        # parameters in the order they appear in the system (only those the model depends on)
        names = [nme for nme in ("pg", "uc") if any(nme in E.syms_in(e) for _, ex in sp["der"] for e in ex)]
        pvec = ca.DM([{"pg": pgv, "uc": ucv[k]}[nme] for nme in names]) if names else ca.DM(0, 1)
        xs = None
        try:        # only the calls into rockit are guarded
            sim = ocp.sys_simulator(intg="cvodes", intg_options={"reltol": 1e-10, "abstol": 1e-12})
            xs = DMa(sim(x=xk, u=ca.DM(0, 1), p=pvec, t0=tk[0], dt=tk[1] - tk[0], z_initial_guess=ca.DM(0, 1))["xf"]).reshape(-1)
        except Exception as ex:
            fails.append(Fail("sys_simulator-raises", feats, {"message": str(ex).strip().splitlines()[-1][:140]}))
        if xs is not None and not close(xs, sol.y[:, -1], 1e-7, 1e-8):
            fails.append(Fail("sys_simulator-differs-from-reference-flow", feats, {"simulator": xs, "reference": sol.y[:, -1]}))
    return fails


TECHNIQUE = "property-based testing (Hypothesis): generated smooth ODE/DAE family, scipy DOP853 as reference flow, error-vs-M convergence orders as validity predicate (lower bounds only)"
LEVEL_TEXT = ("Generated-input exploration with an independent high-accuracy reference integrator; the discrete end state and integral of every method must approach the reference with at least the classical "
              "order (finite M in {1,2,4,8}, lower bounds with margin 0.7), builtin integrators within 100x their requested tolerance; discrete_system and sys_simulator are compared with the NLP's own step and the reference flow.")
LEVEL_NOTE = "Trusted: scipy DOP853 at 1e-13; asymptotic regime assumed only when the largest integrator step is <= 0.2; super-convergence is allowed."
