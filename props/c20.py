"""C20 - ill-posed specifications are rejected, never silently transcribed."""
import itertools
import numpy as np
import casadi as ca
from hypothesis import strategies as st

from vlib.core import Fail, HarnessInconclusive
from vlib.build import make_grid, IPOPT_QUIET

ID = "C20"
LEVEL = "fault_enumeration"
BUDGET = {"quick": (8, 1), "thorough": (16, 1)}
EXHAUSTIVE = {"quick": True, "thorough": True}
RULE = ("Exhaustive enumeration of the fault catalogue: {missing set_der / set_next per state position; missing value per parameter kind (global, control, control+include_last, bspline); no method; "
        "no solver; signal-valued and non-scalar objective; set_value on state / variable / foreign symbol; set_initial on parameter / foreign symbol; unknown grid name in subject_to (path and boundary constraints), sample, integral, "
        "variable, parameter; foreign symbol in ODE / constraint / objective; constant-false constraint; algebraic equation with rk / expl_euler; time-varying, nonlinear or DAE model under SplineMethod; "
        "T, t0, DT, DT_control in the ODE} x every applicable position (which state, which stage of a two-stage problem) x method in {MultipleShooting, SingleShooting, DirectCollocation, SplineMethod} "
        "x base variants (quick: 2, thorough: 6; N, M, state widths). Every case builds a well-posed base OCP that is verified to solve, injects one fault, and requires an exception from the declaring "
        "call or at the latest from ocp.solve(), with zero calls reaching casadi.Opti.solve (counting wrapper). Non-trivial = every injected fault; distinct = (fault, position, method, variant).")
ASSUMPTIONS = ["the fault-free twin of every case is solved by ipopt (otherwise the case is counted inconclusive)", "casadi.Opti.solve / solve_limited are the only doors to the solver"]

METHODS = ["MS", "SS", "DC", "MSeuler", "Spline"]


def method_obj(name, N, M):
    from rockit import MultipleShooting, SingleShooting, DirectCollocation, SplineMethod
    if name == "MS":
        return MultipleShooting(N=N, M=M, intg="rk")
    if name == "MSeuler":
        return MultipleShooting(N=N, M=M, intg="expl_euler")
    if name == "SS":
        return SingleShooting(N=N, M=M, intg="rk")
    if name == "DC":
        return DirectCollocation(N=N, M=M, degree=2)
    return SplineMethod(N=N)


class World:
    """A well-posed two-stage OCP; every declaration step is a named hook a fault can replace."""

    def __init__(self, method, variant, discrete=False):
        self.method, self.variant, self.discrete = method, variant, discrete
        self.N, self.M, self.w = variant["N"], variant["M"], variant["w"]

    def build(self, fault=None):
        """fault: (name, position) or None.  Returns ocp; raises whatever rockit raises."""
        from rockit import Ocp
        f, pos = fault if fault else (None, None)
        spline = self.method == "Spline"
        ocp = Ocp(t0=0.5, T=2.0)
        stages = [ocp, ocp.stage(t0=2.5, T=1.0)]
        self.syms = []
        for si, stg in enumerate(stages):
            here = pos is not None and pos.get("stage", 0) == si
            x1 = stg.state(self.w)
            x2 = stg.state(self.w)
            u = stg.control(self.w)
            pg = stg.parameter()
            pc = stg.parameter(grid="control")
            pp = stg.parameter(grid="control", include_last=True)
            v = stg.variable()
            foreign = ca.MX.sym("foreign")
            states = [x1, x2]
            # --- dynamics
            rhs = [x2, u - (0 if spline else 1) * pg * x1]
            if self.discrete:
                rhs = [x1 + stg.DT * x2, x2 + stg.DT * (u - pg * x1)]
            if here and f == "foreign_in_ode":
                rhs[1] = rhs[1] + foreign
            if here and f == "T_in_ode":
                rhs[1] = rhs[1] + stg.T
            if here and f == "t0_in_ode":
                rhs[1] = rhs[1] + stg.t0
            if here and f == "DT_in_ode":
                rhs[1] = rhs[1] + stg.DT
            if here and f == "DT_control_in_ode":
                rhs[1] = rhs[1] + stg.DT_control
            if here and f == "spline_time_varying":
                rhs[1] = rhs[1] + ca.sin(stg.t)
            if here and f == "spline_nonlinear":
                rhs[1] = rhs[1] + x1 ** 2
            for i, (s_, r_) in enumerate(zip(states, rhs)):
                if here and f in ("missing_set_der", "missing_set_next") and pos["state"] == i:
                    continue
                (stg.set_next if self.discrete else stg.set_der)(s_, r_)
            if here and f in ("alg_with_explicit_scheme", "spline_dae"):
                z = stg.algebraic()
                stg.add_alg(z - x1[0])
            # --- parameter values
            if not (here and f == "missing_value" and pos["param"] == "global"):
                stg.set_value(pg, 0.5)
            if not (here and f == "missing_value" and pos["param"] == "control"):
                stg.set_value(pc, np.linspace(0.5, 1.0, self.N).reshape(1, -1))
            if not (here and f == "missing_value" and pos["param"] == "control+"):
                stg.set_value(pp, np.linspace(1.0, 1.5, self.N + 1).reshape(1, -1))
            if here and f == "missing_value" and pos["param"] == "bspline":
                pb = stg.parameter(grid="bspline", order=1)
                stg.add_objective(stg.at_tf(pb) * 0)
            # --- objective
            stg.add_objective(stg.sum(ca.sumsqr(u) * pc) + stg.at_tf(ca.sumsqr(x1)) * stg.at_tf(pp) + (v - 1) ** 2)
            if here and f == "signal_objective":
                stg.add_objective(ca.sumsqr(x1))
            if here and f == "nonscalar_objective":
                stg.add_objective(stg.at_tf(ca.vertcat(x1, x2)))
            if here and f == "foreign_in_objective":
                stg.add_objective(foreign ** 2)
            # --- constraints
            stg.subject_to(stg.at_t0(x1) == 1)
            stg.subject_to(stg.at_t0(x2) == 0)
            stg.subject_to(-3 <= (u <= 3))
            if here and f == "foreign_in_constraint":
                stg.subject_to(x1 <= foreign)
            if here and f == "constant_false_constraint":
                stg.subject_to(ca.MX(2) <= ca.MX(1))
            if here and f == "false_horizon_relation":
                # false only once the (numeric) horizon is written in: tf is 2.5 resp. 3.5
                stg.subject_to(stg.tf <= 1.25)
            if here and f == "false_horizon_relation_T":
                stg.subject_to(stg.T + stg.t0 == 10.0)
            if here and f == "unknown_grid_subject_to":
                stg.subject_to(x1 <= 5, grid="foo")
            if here and f == "unknown_grid_subject_to_boundary":
                stg.subject_to(stg.at_tf(x2) <= 5, grid="foo")
            if here and f == "unknown_grid_integral":
                stg.add_objective(stg.integral(ca.sumsqr(u), grid="foo"))
            if here and f == "unknown_grid_variable":
                vf = stg.variable(grid="foo")
                stg.add_objective(vf ** 2)
            if here and f == "unknown_grid_parameter":
                pf = stg.parameter(grid="foo")
                stg.set_value(pf, 1.0)
                stg.add_objective(pf * v)
            if here and f == "set_value_on_state":
                stg.set_value(x1, 1.0)
            if here and f == "set_value_on_variable":
                stg.set_value(v, 1.0)
            if here and f == "set_value_on_foreign":
                stg.set_value(foreign, 1.0)
            if here and f == "set_value_on_quad_state":
                q = stg.state(quad=True)
                (stg.set_next if self.discrete else stg.set_der)(q, ca.sumsqr(u))
                stg.add_objective(stg.at_tf(q))
                stg.set_value(q, 1.0)
            if here and f == "set_value_on_control":
                stg.set_value(u, 1.0)
            if here and f == "set_value_on_bspline_variable":
                vb = stg.variable(grid="bspline", order=1)
                stg.add_objective(stg.at_tf(vb) ** 2)
                stg.set_value(vb, 1.0)
            if here and f == "set_initial_on_parameter":
                stg.set_initial(pg, 1.0)
            if here and f == "set_initial_on_foreign":
                stg.set_initial(foreign, 1.0)
            # --- method
            if not (here and f == "no_method"):
                stg.method(method_obj(self.method, self.N, self.M))
            self.syms.append({"x1": x1, "u": u})
        if f != "no_solver":
            opts = dict(IPOPT_QUIET)
            opts["ipopt.max_iter"] = 50
            ocp.solver("ipopt", opts)
        self.ocp, self.stages = ocp, stages
        return ocp


def catalogue(method, discrete):
    """(fault, position) pairs applicable to this method."""
    out = []
    spline = method == "Spline"
    stages = [0, 1]
    for s in stages:
        for i in range(2):
            out.append(("missing_set_next" if discrete else "missing_set_der", {"stage": s, "state": i}))
        for kind in ("global", "control", "control+", "bspline"):
            if kind == "bspline" and discrete:
                continue
            out.append(("missing_value", {"stage": s, "param": kind}))
        out.append(("no_method", {"stage": s}))
        for f in ("signal_objective", "nonscalar_objective", "set_value_on_state", "set_value_on_variable", "set_value_on_foreign", "set_value_on_quad_state", "set_value_on_control", "set_value_on_bspline_variable", "set_initial_on_parameter", "set_initial_on_foreign",
                  "unknown_grid_subject_to", "unknown_grid_subject_to_boundary", "unknown_grid_integral", "unknown_grid_variable", "unknown_grid_parameter", "unknown_grid_sample",
                  "foreign_in_ode", "foreign_in_constraint", "foreign_in_objective", "constant_false_constraint", "false_horizon_relation", "false_horizon_relation_T"):
            out.append((f, {"stage": s}))
        if not discrete:
            out.append(("T_in_ode", {"stage": s}))
            out.append(("t0_in_ode", {"stage": s}))
            out.append(("DT_in_ode", {"stage": s}))
            out.append(("DT_control_in_ode", {"stage": s}))
            if method in ("MS", "SS", "MSeuler"):
                out.append(("alg_with_explicit_scheme", {"stage": s}))
            if spline:
                out.append(("spline_time_varying", {"stage": s}))
                out.append(("spline_nonlinear", {"stage": s}))
                out.append(("spline_dae", {"stage": s}))
    out.append(("no_solver", {"stage": 0}))
    return out


VARIANTS = [{"N": 2, "M": 1, "w": 1}, {"N": 3, "M": 2, "w": 2}, {"N": 1, "M": 1, "w": 1}, {"N": 4, "M": 1, "w": 3}, {"N": 2, "M": 3, "w": 2}, {"N": 5, "M": 2, "w": 1}]


def enumerate_cases(tier, seed=1):
    cases = []
    variants = VARIANTS[:2] if tier == "quick" else VARIANTS
    for vi, var in enumerate(variants):
        for method in METHODS:
            for discrete in ([False] if method in ("DC", "Spline", "MSeuler") else [False, True]):
                for f, pos in catalogue(method, discrete):
                    cases.append({"fault": f, "pos": pos, "method": method, "discrete": discrete, "variant": var})
    return cases


def strategy(tier):
    return st.sampled_from(enumerate_cases(tier))


def nontrivial(case):
    return True


def classify(case):
    return ["fault:" + case["fault"], "method:" + case["method"] + ("/set_next" if case["discrete"] else ""), "stage:%d" % case["pos"].get("stage", 0)]


def abbreviate(case):
    return case


class SolveCounter:
    def __enter__(self):
        self.calls = 0
        self.orig = (ca.Opti.solve, ca.Opti.solve_limited)
        me = self

        def solve(opti_self, *a, **k):
            me.calls += 1
            return me.orig[0](opti_self, *a, **k)

        def solve_limited(opti_self, *a, **k):
            me.calls += 1
            return me.orig[1](opti_self, *a, **k)
        ca.Opti.solve, ca.Opti.solve_limited = solve, solve_limited
        return self

    def __exit__(self, *a):
        ca.Opti.solve, ca.Opti.solve_limited = self.orig


_twin_cache = {}


def twin_solves(case):
    key = (case["method"], case["discrete"], tuple(sorted(case["variant"].items())))
    if key not in _twin_cache:
        try:
            w = World(case["method"], case["variant"], case["discrete"])
            ocp = w.build(None)
            ocp.solve()
            _twin_cache[key] = True
        except Exception as ex:
            _twin_cache[key] = str(ex)[:100]
    return _twin_cache[key]


def check(case, ctx):
    feats = {"fault": case["fault"], "method": case["method"], "discrete": case["discrete"], "stage": case["pos"].get("stage", 0)}
    for k in ("state", "param"):
        if k in case["pos"]:
            feats[k] = case["pos"][k]
    tw = twin_solves(case)
    if tw is not True:
        raise HarnessInconclusive("fault-free twin does not solve: %s" % tw)
    w = World(case["method"], case["variant"], case["discrete"])
    raised_at = None
    with SolveCounter() as counter:
        try:
            ocp = w.build((case["fault"], case["pos"]))
            try:
                if case["fault"] == "unknown_grid_sample":
                    stg = w.stages[case["pos"]["stage"]]
                    if case["pos"]["stage"] == 1:
                        ocp.jacobian()
                    stg.sample(w.syms[case["pos"]["stage"]]["x1"], grid="foo")
                ocp.solve()
            except Exception as ex:
                raised_at = "solve:" + type(ex).__name__
        except Exception as ex:
            raised_at = "declaration:" + type(ex).__name__
        calls = counter.calls
    ctx.count("faults_injected")
    if raised_at is not None and raised_at.startswith("declaration"):
        ctx.count("rejected_at_declaration")
    elif raised_at is not None:
        ctx.count("rejected_at_transcribe_or_solve")
    fails = []
    if raised_at is None:
        fails.append(Fail("fault-accepted", feats, {"solver_calls": calls, "note": "no exception up to and including ocp.solve()"}))
    elif calls > 0:
        fails.append(Fail("nlp-reached-solver", feats, {"solver_calls": calls, "raised": raised_at}))
    return fails


TECHNIQUE = "fault enumeration: exhaustive product of a fault catalogue x positions x methods x base variants, each injected into a verified well-posed OCP; oracle = exception raised and solver never called (counting wrapper)"
LEVEL_TEXT = ("Exhaustive enumeration of single specification faults over every applicable position, method and base variant; each case requires rejection by an exception no later than ocp.solve() "
              "and zero solver invocations, while the fault-free twin solves.")
LEVEL_NOTE = "Trusted: the catalogue is the one stated in the property; casadi.Opti.solve/solve_limited wrapping observes every solver invocation made through rockit."
