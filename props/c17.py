"""C17 - B-spline signals and SplineMethod trajectories are exact splines of the model."""
import copy
import math
import numpy as np
import casadi as ca
from scipy.interpolate import BSpline
from hypothesis import strategies as st

from vlib import gen, ref, obs
from vlib import expr as E
from vlib.build import make_grid, IPOPT_QUIET
from vlib.core import Fail, HarnessInconclusive
from vlib.nlp import NLP, Rows, subtract_rows, close, DMa

ID = "C17"
LEVEL = "exploration"
BUDGET = {"quick": (8, 50), "thorough": (16, 1500)}
RULE = ("Three generated families. micro: eval_on_knots / bspline_derivative / get_greville_points for degree 0..4, N 1..8, uniform and random non-uniform knot vectors, refine 1..5, vector-valued random "
        "coefficients, compared with scipy.interpolate.BSpline on the clamped knot vector. signal: a grid='bspline' variable (rows 1..2, order 0..4) and parameter (known coefficients) under "
        "MultipleShooting/DirectCollocation on uniform/geometric/function grids, fixed/free T: samples on control, integrator, integrator+refine and integrator_roots grids must equal scipy's spline of the "
        "known coefficients (parameter) or lie in the spline space and agree across grids (variable); sample(der(sig)) == analytic derivative in physical time; der beyond the degree raises. "
        "splinemethod: generated integrator-chain systems (mixed chain lengths, vector states) under SplineMethod: gist coefficients sit at Greville points (one time per coefficient), refined samples == "
        "Cox-de Boor of the gist coefficients, chain ODE holds at dense times, path constraints with refine=r add exactly the N*r+1 instances, and on convex problems the optimum equals MultipleShooting's. "
        "Non-trivial = degree>=1 or non-uniform grid or refine>1 or chain length>=2; distinct = SHA-1 of case JSON.")
ASSUMPTIONS = ["scipy.interpolate.BSpline (Cox-de Boor) on the clamped control-grid knot vector is the reference spline", "ipopt with tol 1e-10 solves the convex chain problems to 1e-7 in the objective"]


@st.composite
def knots(draw, N):
    if draw(st.booleans()):
        return [i / N for i in range(N + 1)]
    inc = [draw(st.sampled_from([0.5, 1.0, 1.0, 2.0, 3.0])) for _ in range(N)]
    c = np.concatenate([[0.0], np.cumsum(inc)]) / np.sum(inc)
    return [float(v) for v in c]


@st.composite
def strategy_(draw):
    kind = gen.weighted(draw, [("micro", 3), ("signal", 3), ("splinemethod", 3), ("spline_signal", 2)])
    rng = draw(st.integers(0, 2**31 - 1))
    if kind == "micro":
        N = draw(st.integers(1, 8))
        return {"kind": kind, "N": N, "d": draw(st.integers(0, 4)), "xi": draw(knots(N)), "refine": draw(st.integers(1, 5)), "rows": draw(st.integers(1, 3)), "rng": rng,
                "subgrid": sorted(set(draw(st.lists(st.sampled_from([0.0, 0.1, 0.25, 0.5, 0.8, 0.95]), min_size=1, max_size=3))))}
    if kind == "signal":
        mcls = draw(st.sampled_from(["MS", "DC"]))
        m = {"cls": mcls, "N": draw(st.integers(1, 5)), "M": draw(st.integers(1, 3)), "grid": draw(gen.grid(classes=("uniform", "geometric", "function"), localize=False))}
        if mcls == "DC":
            m["degree"], m["scheme"] = draw(st.sampled_from([1, 2, 3])), draw(st.sampled_from(["radau", "legendre"]))
        else:
            m["intg"] = draw(st.sampled_from(["rk", "expl_euler"]))
        return {"kind": kind, "method": m, "order_v": draw(st.integers(0, 4)), "order_p": draw(st.integers(0, 4)), "rows": draw(st.sampled_from([1, 1, 2])), "which": draw(st.sampled_from(["v", "p", "both"])), "der_first": draw(st.sampled_from([True, True, False])),
                "T": draw(st.sampled_from([["num", 2.0], ["num", 0.5], ["free", 1.5]])), "t0": draw(st.sampled_from([0.0, 1.0, -0.5])), "refine": draw(st.integers(1, 5)), "rng": rng}
    if kind == "spline_signal":
        return {"kind": kind, "N": draw(st.integers(1, 5)), "grid": draw(gen.grid(classes=("uniform", "geometric", "function"), localize=False)), "order_v": draw(st.integers(1, 4)),
                "order_p": draw(st.integers(1, 4)), "rows": draw(st.sampled_from([1, 1, 2])), "T": draw(st.sampled_from([1.0, 2.5, 0.5])), "t0": draw(st.sampled_from([0.0, 1.0])),
                "refine": draw(st.integers(1, 4)), "rng": rng}
    # integrator chains: list of (length L >= 1 = number of states in the chain, width)
    chains = [{"L": draw(st.integers(1, 3)), "w": draw(st.sampled_from([1, 1, 2]))} for _ in range(draw(st.integers(1, 3)))]
    return {"kind": kind, "chains": chains, "N": draw(st.integers(1, 5)), "grid": draw(gen.grid(classes=("uniform", "geometric", "function"), localize=False)),
            "T": draw(st.sampled_from([2.0, 0.5, 1.0])), "t0": draw(st.sampled_from([0.0, 1.0])), "refine": draw(st.integers(1, 4)), "solve": draw(st.integers(0, 3)) == 0,
            "bound": draw(st.sampled_from([0.5, 1.0, 2.0])), "rng": rng}


def strategy(tier):
    return strategy_()


def nontrivial(case):
    if case["kind"] == "micro":
        return case["d"] >= 1 or case["refine"] > 1 or case["xi"] != [i / case["N"] for i in range(case["N"] + 1)]
    if case["kind"] == "signal":
        return case["order_v"] >= 1 or case["order_p"] >= 1 or gen.grid_nontrivial(case["method"]["grid"])
    if case["kind"] == "spline_signal":
        return True
    return any(c["L"] >= 2 for c in case["chains"]) or case["refine"] > 1 or gen.grid_nontrivial(case["grid"])


def classify(case):
    k = case["kind"]
    if k == "micro":
        return ["micro", "degree:%d" % case["d"], "refine:%d" % case["refine"]]
    if k == "signal":
        return ["signal", "method:" + case["method"]["cls"], "order_v:%d" % case["order_v"], "order_p:%d" % case["order_p"], "grid:" + case["method"]["grid"]["cls"], "T:" + case["T"][0]]
    if k == "spline_signal":
        return ["spline_signal", "order_v:%d" % case["order_v"], "order_p:%d" % case["order_p"], "T:%s" % case["T"], "grid:" + case["grid"]["cls"]]
    return ["splinemethod", "grid:" + case["grid"]["cls"], "maxchain:%d" % max(c["L"] for c in case["chains"]), "refine:%d" % case["refine"]] + (["solve"] if case["solve"] else [])


def abbreviate(case):
    return case


def clamped(xi, d):
    return np.concatenate([[xi[0]] * d, xi, [xi[-1]] * d])


def design(x, t, d):
    """Dense matrix of basis-function values B_i(x_j) (rows i) on the clamped knot vector t."""
    n = len(t) - d - 1
    out = np.zeros((n, len(x)))
    for i in range(n):
        c = np.zeros(n)
        c[i] = 1.0
        b = BSpline(t, c, d, extrapolate=False)
        v = b(np.asarray(x, dtype=float))
        out[i] = np.nan_to_num(v)
    # right end point belongs to the last interval
    last = np.isclose(x, t[-1], rtol=0.0, atol=1e-14)
    if last.any():
        out[:, last] = 0.0
        out[-1, last] = 1.0
    return out


def check_micro(case, ctx):
    from rockit.splines.micro_spline import eval_on_knots, bspline_derivative, get_greville_points
    N, d, r = case["N"], case["d"], case["refine"]
    xi = np.array(case["xi"])
    rng = np.random.default_rng(case["rng"])
    feats = {"kind": "micro", "degree": d, "uniform": case["xi"] == [i / N for i in range(N + 1)]}
    fails = []
    t = clamped(xi, d)
    k, Bm = eval_on_knots(ca.DM(xi).T, d, subsamples=r - 1)
    k = DMa(k).reshape(-1)
    Bm = DMa(Bm)
    want_k = np.concatenate([xi[i] + (xi[i + 1] - xi[i]) * np.arange(r) / r for i in range(N)] + [[xi[-1]]])
    if not close(k, want_k, 1e-12, 1e-13):
        fails.append(Fail("eval_on_knots-times", feats, {"got": k, "expected": want_k}))
        return fails
    D = design(k, t, d)
    if Bm.shape != D.shape or not close(Bm, D, 1e-10, 1e-12):
        fails.append(Fail("eval_on_knots-basis", feats, {"shape": list(Bm.shape), "expected_shape": list(D.shape), "max_err": float(np.max(np.abs(Bm - D))) if Bm.shape == D.shape else None}))
        return fails
    tau = np.array(case["subgrid"])
    k2, B2 = eval_on_knots(ca.DM(xi).T, d, subgrid=ca.DM(tau), include_edges=False)
    k2 = DMa(k2).reshape(-1)
    want_k2 = np.concatenate([xi[i] * (1 - tau) + tau * xi[i + 1] for i in range(N)])
    if not close(k2, want_k2, 1e-12, 1e-13) or not close(DMa(B2), design(want_k2, t, d), 1e-10, 1e-12):
        fails.append(Fail("eval_on_knots-subgrid", feats, {"tau": tau}))
        return fails
    G = DMa(get_greville_points(ca.DM(xi).T, d)).reshape(-1)
    want_G = (xi[1:] + xi[:-1]) / 2 if d == 0 else np.array([np.mean(t[i + 1:i + d + 1]) for i in range(N + d)])
    if not close(G, want_G, 1e-12, 1e-13):
        fails.append(Fail("greville-points", feats, {"got": G, "expected": want_G}))
    if d >= 1:
        C = rng.uniform(-1, 1, (case["rows"], N + d))
        dC = DMa(bspline_derivative(ca.DM(C), ca.DM(xi).T, d))
        x = np.sort(rng.uniform(xi[0], xi[-1], 12))
        got = dC @ design(x, clamped(xi, d - 1), d - 1)
        want = np.array([BSpline(t, C[i], d).derivative()(x) for i in range(case["rows"])])
        if dC.shape != (case["rows"], N + d - 1) or not close(got, want, 1e-9, 1e-10):
            fails.append(Fail("bspline_derivative", feats, {"shape": list(dC.shape), "max_err": float(np.max(np.abs(got - want))) if got.shape == want.shape else None}))
    ctx.count("micro_cases")
    return fails


def make_signal_ocp(case, rng_seed):
    from rockit import Ocp, FreeTime
    from vlib.build import make_method
    m = case["method"]
    N, rows, dv, dp = m["N"], case["rows"], case["order_v"], case["order_p"]
    which = case.get("which", "both")
    rng = np.random.default_rng(rng_seed)
    ocp = Ocp(t0=case["t0"], T=(FreeTime(case["T"][1]) if case["T"][0] == "free" else case["T"][1]))
    x = ocp.state()
    u = ocp.control()
    sigs = {}
    rhs = u
    obj = ocp.integral(u ** 2) + ocp.at_tf(x) ** 2 + (ocp.T if case["T"][0] == "free" else 0)
    Cp = rng.uniform(-1, 1, (rows, N + dp))
    if which in ("v", "both"):
        v = ocp.variable(rows, 1, grid="bspline", order=dv)
        sigs["v"] = (v, dv)
        rhs = rhs + ca.sum1(v)
        obj = obj + ocp.integral(ca.sumsqr(v))
    if which in ("p", "both"):
        p = ocp.parameter(rows, 1, grid="bspline", order=dp)
        sigs["p"] = (p, dp)
        rhs = rhs * (1 + 0.1 * ca.sum1(p))
        ocp.set_value(p, Cp)
    ocp.set_der(x, rhs)
    ocp.add_objective(obj)
    ocp.subject_to(ocp.at_t0(x) == 1)
    ocp.method(make_method(m))
    ocp.solver("ipopt", dict(IPOPT_QUIET))
    return ocp, sigs, Cp


def raw_symbols(mx):
    return [s_.name() for s_ in ca.symvar(ca.MX(mx)) if not s_.name().startswith("opti")]


def check_signal(case, ctx):
    m = case["method"]
    N, M, rows, dv, dp, r = m["N"], m["M"], case["rows"], case["order_v"], case["order_p"], case["refine"]
    which = case.get("which", "both")
    rng = np.random.default_rng(case["rng"])
    other = which == "both" or case["T"][0] == "free"
    feats = {"kind": "signal", "method": m["cls"], "order_v": dv, "order_p": dp, "tgrid": m["grid"]["cls"], "T": case["T"][0], "vector": rows > 1, "signals": which,
             "other_variables_or_signals": other}
    ocp, sigs, Cp = make_signal_ocp(case, case["rng"] + 1)
    fails = []
    nlp = NLP(ocp)
    grids = [("control", {}), ("integrator", {}), ("integrator", {"refine": r})]
    if m["cls"] == "DC":
        grids.append(("integrator_roots", {}))
    usable = {}
    for gi, (g, kw) in enumerate(grids):
        gname = g + ("+refine" if kw else "")
        for nm, (sig, dd) in sigs.items():
            t_, val = ocp.sample(sig, grid=g, **kw)
            bad = raw_symbols(val)
            if bad:
                fails.append(Fail("sample-leaves-raw-signal-symbol", dict(feats, sgrid=gname, signal=nm), {"symbols": bad}))
                continue
            usable[(nm, gi)] = True
            nlp.add("%s%d" % (nm, gi), val)
            nlp.add("t%s%d" % (nm, gi), t_)
    nlp.add("tk", ocp.sample(ocp.t, grid="control")[0])
    xx = rng.uniform(-1, 1, nlp.nx)
    if case["T"][0] == "free":
        from vlib.nlp import time_like_vars
        xx[time_like_vars(nlp, [ocp.value(ocp.T)])] = rng.uniform(0.5, 2.0)
    res = nlp.eval(xx)
    tk = res["tk"].reshape(-1)
    # parameter: known coefficients
    if "p" in sigs:
        tp = clamped(tk, dp)
        for gi, (g, kw) in enumerate(grids):
            if ("p", gi) not in usable:
                continue
            gname = g + ("+refine" if kw else "")
            tt = res["tp%d" % gi].reshape(-1)
            got = res["p%d" % gi].reshape(rows, -1)
            want = Cp @ design(tt, tp, dp)
            if got.shape != want.shape or not close(got, want, 1e-9, 1e-10):
                fails.append(Fail("parameter-spline-samples", dict(feats, sgrid=gname), {"max_err": float(np.max(np.abs(got - want))) if got.shape == want.shape else None, "shape": list(got.shape)}))
    # variable: coefficients recovered from the control-grid and refined samples together
    Cv = None
    if "v" in sigs:
        tv = clamped(tk, dv)
        per_grid = {}
        for gi, (g, kw) in enumerate(grids):
            if ("v", gi) in usable:
                per_grid[gi] = (res["tv%d" % gi].reshape(-1), res["v%d" % gi].reshape(rows, -1))
        # refined grid first: it alone usually identifies the coefficients
        order = sorted(per_grid, key=lambda gi: -len(per_grid[gi][0]))
        tt0, vv0 = per_grid[order[0]]
        A = design(tt0, tv, dv).T
        if np.linalg.matrix_rank(A) < N + dv:
            ctx.count("signal_coefficients_not_identifiable")
        else:
            Cv = np.linalg.lstsq(A, vv0.T, rcond=None)[0].T
            resid = float(np.max(np.abs(Cv @ A.T - vv0)))
            g0 = grids[order[0]]
            if resid > 1e-8:
                fails.append(Fail("variable-samples-not-a-spline", dict(feats, sgrid=g0[0] + ("+refine" if g0[1] else "")), {"residual": resid, "degree": dv}))
                Cv = None
            else:
                for gi in order[1:]:
                    tt, vv = per_grid[gi]
                    if not close(vv, Cv @ design(tt, tv, dv), 1e-8, 1e-9):
                        g1 = grids[gi]
                        fails.append(Fail("variable-grids-disagree", dict(feats, sgrid=g1[0] + ("+refine" if g1[1] else ""), fitted_on=g0[0] + ("+refine" if g0[1] else "")),
                                          {"max_err": float(np.max(np.abs(vv - Cv @ design(tt, tv, dv))))}))
        J = np.array(ca.DM(ca.jacobian(ca.vec(ocp.sample(sigs["v"][0], grid="control")[1]), ca.vertcat(nlp.x, nlp.inactive)).sparsity(), 1))
        ncoef = int(np.sum(J.sum(axis=0) > 0))
        if dv == 0 and ncoef != rows * N or dv > 0 and ncoef > rows * (N + dv):
            fails.append(Fail("variable-coefficient-count", feats, {"decision_variables": ncoef, "expected": rows * (N + dv)}))
    ctx.count("signal_cases")
    # der() of the signals under the sampling method (declared before transcribing, as a user would)
    for nm, (sig_, dd) in sigs.items():
        ocp2, sigs2, Cp2 = make_signal_ocp(case, case["rng"] + 1)
        sig2 = sigs2[nm][0]
        if dd == 0:
            try:
                ocp2.der(sig2)
                fails.append(Fail("der-of-degree0-spline-accepted", dict(feats, signal=nm), {}))
            except Exception:
                ctx.count("nonexistent_derivative_rejected")
            continue
        stage_ = "der()"
        try:
            d2 = ocp2.der(sig2)
            stage_ = "transcription"
            n2 = NLP(ocp2)
            stage_ = "sampling"
            td, dval = ocp2.sample(d2, grid="control")
            bad = raw_symbols(dval)
            if bad:
                fails.append(Fail("bspline-derivative", dict(feats, signal=nm, stage="sampling"), {"raw_symbols": bad}))
                continue
            n2.add("d", dval)
            n2.add("td", td)
            n2.add("s", ocp2.sample(sig2, grid="control")[1])
            n2.add("tk", ocp2.sample(ocp2.t, grid="control")[0])
        except Exception as ex:
            fails.append(Fail("bspline-derivative", dict(feats, signal=nm, stage=stage_), {"message": str(ex).strip().splitlines()[-1][:140]}))
            continue
        if nm == "p":
            r2 = n2.eval(rng.uniform(0.5, 1.5, n2.nx))
            tk2 = r2["tk"].reshape(-1)
            tt = r2["td"].reshape(-1)
            tp2 = clamped(tk2, dp)
            wantd = np.array([BSpline(tp2, Cp2[i], dp).derivative()(np.clip(tt, tk2[0], tk2[-1] - 1e-12)) for i in range(rows)])
            mk = np.ones(len(tt), dtype=bool) if dp >= 2 else np.zeros(len(tt), dtype=bool)
            if mk.any() and not close(r2["d"].reshape(rows, -1)[:, mk], wantd[:, mk], 1e-7, 1e-8):
                fails.append(Fail("bspline-derivative", dict(feats, signal=nm, stage="value"), {"max_err": float(np.max(np.abs(r2["d"].reshape(rows, -1)[:, mk] - wantd[:, mk])))}))
    return fails


def build_chain_ocp(case, method):
    from rockit import Ocp
    ocp = Ocp(t0=case["t0"], T=case["T"])
    members = []   # per chain: list of symbols top..control
    for ci, ch in enumerate(case["chains"]):
        syms = [ocp.state(ch["w"]) for _ in range(ch["L"])]
        ctrl = ocp.control(ch["w"])
        for a, b in zip(syms, syms[1:] + [ctrl]):
            ocp.set_der(a, b)
        members.append(syms + [ctrl])
    obj = 0
    for ci, mem in enumerate(members):
        obj = obj + ocp.sum(ca.sumsqr(mem[-1])) + ocp.at_tf(ca.sumsqr(mem[0] - (ci + 1)))
        ocp.subject_to(ocp.at_t0(mem[0]) == 0.25 * (ci + 1))
        for s in mem[1:-1]:
            ocp.subject_to(ocp.at_t0(s) == 0)
    ocp.add_objective(obj)
    ocp.method(method)
    opts = dict(IPOPT_QUIET)
    opts.update({"ipopt.tol": 1e-10})
    ocp.solver("ipopt", opts)
    return ocp, members


def check_splinemethod(case, ctx):
    from rockit import SplineMethod, MultipleShooting
    N, r = case["N"], case["refine"]
    rng = np.random.default_rng(case["rng"])
    feats = {"kind": "splinemethod", "tgrid": case["grid"]["cls"], "maxchain": max(c["L"] for c in case["chains"]), "refine": r}
    fails = []
    ocpB, memB = build_chain_ocp(case, SplineMethod(N=N, grid=make_grid(case["grid"])))
    ocpW, memW = build_chain_ocp(case, SplineMethod(N=N, grid=make_grid(case["grid"])))
    bound = case["bound"]
    top = memW[0][0]
    ctrl = memW[-1][-1]
    ocpW.subject_to(-bound <= (ctrl <= bound), refine=r)
    ocpW.subject_to(top <= 3.0 * bound, refine=r)   # (a constraint on a single element of a vector state makes SplineMethod.xu_symbols fail)
    nB, nW = NLP(ocpB), NLP(ocpW)
    if nB.nx != nW.nx:
        raise HarnessInconclusive("variable count differs")
    pr = {}
    for ci, mem in enumerate(memW):
        for j, s in enumerate(mem):
            tg, cg = ocpW.sample(s, grid="gist")
            pr["gt%d_%d" % (ci, j)], pr["gc%d_%d" % (ci, j)] = tg, cg
            tr_, vr = ocpW.sample(s, grid="control", refine=r)
            pr["rt%d_%d" % (ci, j)], pr["rv%d_%d" % (ci, j)] = tr_, vr
            pr["cv%d_%d" % (ci, j)] = ocpW.sample(s, grid="control")[1]
    pr["tk"] = ocpW.sample(ocpW.t, grid="control")[0]
    # shapes first: one time per coefficient
    for ci, mem in enumerate(memW):
        for j, s in enumerate(mem):
            nt, nc = ca.MX(pr["gt%d_%d" % (ci, j)]).numel(), ca.MX(pr["gc%d_%d" % (ci, j)]).shape[1]
            if nt != nc:
                fails.append(Fail("gist-time-length", dict(feats, member=j, chain_length=len(mem) - 1), {"times": nt, "coefficients": nc}))
                return fails
    nW.add_all(pr)
    X = rng.uniform(-1, 1, size=(2, nW.nx))
    res = nW.eval(X[0])
    tk = res["tk"].reshape(-1)
    T = tk[-1] - tk[0]
    for ci, mem in enumerate(memW):
        L = len(mem) - 1
        for j, s in enumerate(mem):
            d = L - j
            w = case["chains"][ci]["w"]
            C = res["gc%d_%d" % (ci, j)].reshape(w, -1)
            tg = res["gt%d_%d" % (ci, j)].reshape(-1)
            t = clamped(tk, d)
            wantG = (tk[1:] + tk[:-1]) / 2 if d == 0 else np.array([np.mean(t[i + 1:i + d + 1]) for i in range(N + d)])
            if C.shape[1] != N + d or not close(tg, wantG, 1e-10, 1e-11):
                fails.append(Fail("gist-greville", dict(feats, member=j, degree=d), {"times": tg, "greville": wantG, "ncoef": C.shape[1]}))
                return fails
            tt = res["rt%d_%d" % (ci, j)].reshape(-1)
            got = res["rv%d_%d" % (ci, j)].reshape(w, -1)
            want = C @ design(tt, t, d)
            if d == 0:
                # piecewise constant: compare strictly inside intervals and at the left ends
                pass
            if got.shape != want.shape or not close(got, want, 1e-9, 1e-10):
                fails.append(Fail("refined-samples-vs-cox-de-boor", dict(feats, member=j, degree=d), {"max_err": float(np.max(np.abs(got - want))) if got.shape == want.shape else None, "shape": list(got.shape), "expected": list(want.shape)}))
                return fails
            # chain ODE: d/dt of this member's spline == next member (dense times)
            if j < L:
                dn = L - j - 1
                Cn = res["gc%d_%d" % (ci, j + 1)].reshape(w, -1)
                xs = np.sort(rng.uniform(tk[0], tk[-1], 15))
                xs = xs[np.array([np.min(np.abs(a - tk)) > 1e-6 for a in xs])]
                lhs = np.array([BSpline(t, C[i], d).derivative()(xs) for i in range(w)])
                rhs_ = Cn @ design(xs, clamped(tk, dn), dn)
                if not close(lhs, rhs_, 1e-8, 1e-9):
                    fails.append(Fail("chain-ode-residual", dict(feats, member=j, degree=d), {"max_err": float(np.max(np.abs(lhs - rhs_)))}))
                    return fails
    ctx.count("splinemethod_members", sum(len(m) for m in memW))
    # path constraints at every refined grid point
    evW = [nW.eval(x) for x in X]
    evB = [nB.eval(x) for x in X]
    added, lost = subtract_rows(Rows.from_evals(evW), Rows.from_evals(evB), rtol=1e-9, atol=1e-10)
    if lost.count():
        fails.append(Fail("base-rows-lost", feats, {"lost": lost.count()}))
    exp = Rows()
    ci_last = len(memW) - 1
    jl = len(memW[-1]) - 1
    wl = case["chains"][-1]["w"]
    npts = N * r + 1
    cvals = [e["rv%d_%d" % (ci_last, jl)].reshape(wl, -1) for e in evW]
    tvals = [e["rv0_0"].reshape(case["chains"][0]["w"], -1) for e in evW]
    for pt in range(npts):
        for el in range(wl):
            exp.add_ineq(np.array([c[el, pt] + bound for c in cvals]))
            exp.add_ineq(np.array([bound - c[el, pt] for c in cvals]))
        for el in range(case["chains"][0]["w"]):
            exp.add_ineq(np.array([3.0 * bound - tv_[el, pt] for tv_ in tvals]))
    rest, missing = subtract_rows(added, exp, rtol=1e-8, atol=1e-9)
    if missing.count() or rest.count():
        fails.append(Fail("refined-constraint-instances", feats, {"missing": missing.count(), "surplus": rest.count(), "expected": exp.count(), "points": npts}))
    if fails or not case["solve"]:
        return fails
    # same optimum as MultipleShooting on problems both represent exactly (piecewise-constant lowest member, RK4 exact)
    if max(c["L"] for c in case["chains"]) > 3:
        return fails
    ocpS, _ = build_chain_ocp(case, SplineMethod(N=N, grid=make_grid(case["grid"])))
    ocpM, _ = build_chain_ocp(case, MultipleShooting(N=N, M=1, intg="rk", grid=make_grid(case["grid"])))
    # the solver's verdict, not an exception: ipopt may stop at the optimum of these small QPs with a status other than success
    # ("Search_Direction_Becomes_Too_Small"); only a converged-vs-infeasible disagreement says something about the transcription
    CONVERGED = ("Solve_Succeeded", "Solved_To_Acceptable_Level", "Search_Direction_Becomes_Too_Small")
    out = {}
    for nm, o in (("multiple_shooting", ocpM), ("spline", ocpS)):
        try:
            sol = o.solve_limited()
            out[nm] = (sol.stats["return_status"], float(sol.value(o.objective)))
        except Exception as ex:
            out[nm] = ("exception: " + str(ex).strip().splitlines()[-1][:80], None)
    ctx.count("solves", 2)
    stM, fM = out["multiple_shooting"]
    stS, fS = out["spline"]
    if {stM, stS} <= {"Infeasible_Problem_Detected"}:
        ctx.count("chain_problem_not_solvable_by_either_method")   # e.g. more boundary conditions than degrees of freedom
        return fails
    if (stM in CONVERGED and stS == "Infeasible_Problem_Detected") or (stS in CONVERGED and stM == "Infeasible_Problem_Detected"):
        fails.append(Fail("only-one-method-solves", feats, {"spline": [stS, fS], "multiple_shooting": [stM, fM]}))
        return fails
    if not (stM in CONVERGED and stS in CONVERGED):
        ctx.count("solver_did_not_converge:" + (stS if stS not in CONVERGED else stM)[:40])
        return fails
    tight = stM == stS == "Solve_Succeeded"
    if not close(fS, fM, 1e-6 if tight else 1e-4, 1e-7 if tight else 1e-5):
        fails.append(Fail("optimum-differs-from-multiple-shooting", feats, {"spline": fS, "multiple_shooting": fM}))
    return fails


def check_spline_signal(case, ctx):
    """B-spline variable and parameter under SplineMethod: values and every derivative that exists, in physical time."""
    from rockit import Ocp, SplineMethod
    N, rows, dv, dp, r = case["N"], case["rows"], case["order_v"], case["order_p"], case["refine"]
    rng = np.random.default_rng(case["rng"])
    feats = {"kind": "spline_signal", "order_v": dv, "order_p": dp, "tgrid": case["grid"]["cls"], "T": case["T"]}
    ocp = Ocp(t0=case["t0"], T=case["T"])
    x = ocp.state()
    u = ocp.control()
    ocp.set_der(x, u)
    v = ocp.variable(rows, 1, grid="bspline", order=dv)
    p = ocp.parameter(rows, 1, grid="bspline", order=dp)
    Cp = rng.uniform(-1, 1, (rows, N + dp))
    ocp.set_value(p, Cp)
    ders = {"v": [v], "p": [p]}
    for nm, d in (("v", dv), ("p", dp)):
        for j in range(d):
            ders[nm].append(ocp.der(ders[nm][-1]))
    obj = ocp.sum(u ** 2) + ocp.at_tf(x) ** 2
    for nm in ("v", "p"):
        for e in ders[nm]:
            obj = obj + ocp.at_tf(ca.sumsqr(e)) + ocp.at_t0(ca.sumsqr(e))
    ocp.add_objective(obj)
    ocp.subject_to(ocp.at_t0(x) == 1)
    ocp.method(SplineMethod(N=N, grid=make_grid(case["grid"])))
    ocp.solver("ipopt", dict(IPOPT_QUIET))
    fails = []
    nlp = NLP(ocp)
    tg, cg = ocp.sample(v, grid="gist")
    nlp.add("gt", tg)
    nlp.add("gc", cg)
    for nm in ("v", "p"):
        for j, e in enumerate(ders[nm]):
            try:
                t_, val = ocp.sample(e, grid="control", refine=r)
            except Exception as ex:
                fails.append(Fail("spline-signal-derivative-sample-raises", dict(feats, signal=nm, derivative=j), {"message": str(ex).strip().splitlines()[-1][:140]}))
                return fails
            if raw_symbols(val):
                fails.append(Fail("spline-signal-sample-leaves-raw-symbol", dict(feats, signal=nm, derivative=j), {"symbols": raw_symbols(val)}))
                return fails
            nlp.add("%s%d" % (nm, j), val)
            nlp.add("t%s%d" % (nm, j), t_)
    nlp.add("tk", ocp.sample(ocp.t, grid="control")[0])
    res = nlp.eval(rng.uniform(-1, 1, nlp.nx))
    tk = res["tk"].reshape(-1)
    Cv = res["gc"].reshape(rows, -1)
    tv = clamped(tk, dv)
    wantG = np.array([np.mean(tv[i + 1:i + dv + 1]) for i in range(N + dv)])
    if Cv.shape[1] != N + dv or not close(res["gt"].reshape(-1), wantG, 1e-10, 1e-11):
        fails.append(Fail("gist-greville", dict(feats, signal="v"), {"times": res["gt"].reshape(-1), "greville": wantG}))
        return fails
    for nm, C, d in (("v", Cv, dv), ("p", Cp, dp)):
        t = clamped(tk, d)
        for j in range(d + 1):
            tt = res["t%s%d" % (nm, j)].reshape(-1)
            got = res["%s%d" % (nm, j)].reshape(rows, -1)
            xs = np.clip(tt, tk[0], tk[-1] - 1e-13 * (1 + abs(tk[-1])))
            want = np.array([(BSpline(t, C[i], d).derivative(j)(xs) if j else BSpline(t, C[i], d)(xs)) for i in range(rows)])
            # a derivative of degree <= 1 jumps (or kinks) at the knots: compare away from them
            mk = np.ones(len(tt), dtype=bool) if d - j >= 2 else np.array([np.min(np.abs(a - tk)) > 1e-9 for a in tt])
            if got.shape != want.shape:
                fails.append(Fail("spline-signal-shape", dict(feats, signal=nm, derivative=j), {"shape": list(got.shape), "expected": list(want.shape)}))
                return fails
            if mk.any() and not close(got[:, mk], want[:, mk], 1e-7, 1e-8):
                fails.append(Fail("spline-signal-derivative" if j else "spline-signal-value", dict(feats, signal=nm, derivative=j), {"max_err": float(np.max(np.abs(got[:, mk] - want[:, mk]))), "T": case["T"]}))
                return fails
    ctx.count("spline_signal_cases")
    return fails


def check(case, ctx):
    return {"micro": check_micro, "signal": check_signal, "splinemethod": check_splinemethod, "spline_signal": check_spline_signal}[case["kind"]](case, ctx)


TECHNIQUE = "property-based testing (Hypothesis): differential against scipy.interpolate.BSpline (Cox-de Boor) for basis matrices, derivatives, Greville points and sampled signals; SplineMethod vs MultipleShooting optimum on convex chain problems"
LEVEL_TEXT = ("Generated-input exploration with scipy's B-spline implementation as reference model for the spline kernels and for every sampled signal, reference enumeration of refined constraint instances, "
              "and a differential solve against MultipleShooting on convex integrator-chain problems.")
LEVEL_NOTE = "Trusted: scipy.interpolate.BSpline; ipopt (tol 1e-10) on strictly convex chain problems; networkx (needed by SplineMethod) from the offline wheelhouse."
