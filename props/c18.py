"""C18 - saving and loading an OCP preserves the problem."""
import copy
import os
import numpy as np
import casadi as ca
from hypothesis import strategies as st

from vlib import gen, ref, obs
from vlib import expr as E
from vlib.build import build, apply_value, apply_constraint
from vlib.core import Fail, HarnessInconclusive
from vlib.nlp import NLP, Rows, diff_rows, close, time_like_vars, random_points, summarize_diff, DMa
from props import c04, c05, c14

ID = "C18"
LEVEL = "exploration"
BUDGET = {"quick": (8, 35), "thorough": (16, 800)}
K = 2
RULE = ("Generated all-feature OCP (every sampling method and grid, free/parametric horizon, parameters and variables of every kind, optional DAE, scales, objective terms, constraints, guesses, "
        "optional second stage) saved with ocp.save before the first transcription, after a query, or after a limited solve, then loaded with Ocp.load. Oracles: loaded and original NLP have equal "
        "f, constraint-row multiset, parameter vector and starting point at random decision vectors; a 1-3 iteration ipopt run (options given with dotted keys or as a nested plugin dictionary, with or without expand) on both gives the same iterate and iteration count (method and solver "
        "settings); accessors (states, controls, ... in order, shapes) reach symbols whose samples equal the original's; the original still transcribes to the same NLP and solves after save. "
        "Non-trivial = save after transcription/solve, or free time, DAE, scaling, per-interval quantities, multi-stage; distinct = SHA-1 of case JSON.")
ASSUMPTIONS = ["loaded OCP creates decision variables in the same order as the original (checked by count and by equality of sampled quantities)"]


@st.composite
def strategy_(draw):
    sp = draw(gen.base_ocp(quad=False))
    for d in sp["states"] + sp["controls"] + sp["vars"]:
        if draw(st.integers(0, 3)) == 0:
            d["scale"] = c14.draw_scale(draw, d["rows"], d["cols"])
    sp["objective"] = [draw(c05.objective_term(sp)) for _ in range(draw(st.integers(1, 2)))]
    sp["constraints"] = [draw(c04.constraint(sp, allow_roots=(sp["method"]["cls"] == "DC"))) for _ in range(draw(st.integers(0, 2)))]
    sp["initial"] = []
    for d in sp["controls"] + sp["vars"] + ([] if sp["method"]["cls"] == "DC" else sp["states"]):
        if d["cols"] == 1 and not d.get("quad") and draw(st.booleans()):
            sp["initial"].append([d["name"], ["num", draw(gen.small())]])
    # a guess for a free horizon (it also moves the start of time-grid variables and of guesses written in terms of t)
    if sp["T"][0] == "free" and draw(st.booleans()):
        sp["initial"].append(["T", ["num", draw(st.sampled_from([0.5, 1.5, 2.5]))]])
    if sp["t0"][0] == "free" and draw(st.booleans()):
        sp["initial"].append(["t0", ["num", draw(st.sampled_from([0.5, -1.0, 2.0]))]])
    if draw(st.integers(0, 3)) == 0:
        sub = draw(gen.base_ocp(horizons=("num", "free"), table_kw={"prefix": "s1", "max_params": 1, "max_vars": 1}, allow_alg=False))
        sub["name"] = "s1"
        sub["objective"] = [["at_tf", ["sq", gen.leaves_of(sub["states"])[0]]]]
        sp["substages"] = [sub]
        a = gen.leaves_of([d for d in sp["states"]])[0]
        b = gen.leaves_of([d for d in sub["states"]])[0]
        sp["coupling"] = [{"lhs": [["-", ["at_tf", a, "main"], ["at_t0", b, "s1"]]], "rel": "==", "rhs": [E.C(0.0)]}]
    when = draw(st.sampled_from(["before", "after_query", "after_solve"]))
    # parameter values assigned again just before saving (after the query/solve when there is one)
    late = []
    for d in sp["params"]:
        if not d["name"].startswith("hp_") and draw(st.integers(0, 2)) == 0:
            g = d.get("grid", "")
            ncol = d["cols"] * (1 if g == "" else (sp["method"]["N"] if g == "control" else sp["method"]["N"] + 1))
            late.append([d["name"], [[draw(gen.small()) for _ in range(ncol)] for _ in range(d["rows"])]])
    # solver settings in both spellings CasADi accepts: dotted keys or a nested plugin dictionary
    it = draw(st.integers(1, 3))
    sp["solver"] = ["ipopt", draw(st.sampled_from([{"ipopt.max_iter": it}, {"ipopt": {"max_iter": it}}, {"ipopt": {"max_iter": it}, "expand": True}, {"ipopt.max_iter": it, "expand": True}]))]
    # a constraint added after the query/solve and before saving: the transcription is stale at the moment of the save
    edit = None
    if when != "before" and draw(st.integers(0, 2)) == 0:
        leaf = gen.leaves_of([d for d in sp["states"] if not d.get("quad")])[0]
        edit = {"lhs": [leaf], "rel": "<=", "rhs": [E.C(draw(st.sampled_from([7.5, 9.0])))], "grid": None, "include_first": True, "include_last": True}
    return {"spec": sp, "when": when, "late": late, "edit": edit, "rng": draw(st.integers(0, 2**31 - 1))}


def strategy(tier):
    return strategy_()


def feature_labels(case):
    sp = case["spec"]
    labs = (["edit between transcription and save"] if case.get("edit") else []) + (["set_value after transcription, before save"] if case.get("late") and case["when"] != "before" else []) + ["method:" + sp["method"]["cls"], "grid:" + sp["method"]["grid"]["cls"], "save:" + case["when"], "solver-options:" + ("nested" if isinstance(sp.get("solver", [0, {}])[1].get("ipopt"), dict) else "dotted")]
    if sp["T"][0] == "free" or sp["t0"][0] == "free":
        labs.append("free-time")
    if any(it[0] in ("T", "t0") for it in sp.get("initial", [])):
        labs.append("guess for the free horizon")
    if sp["T"][0] == "par" or sp["t0"][0] == "par":
        labs.append("parametric-horizon")
    if sp.get("alg"):
        labs.append("DAE")
    if any("scale" in d for d in sp["states"] + sp["controls"] + sp["vars"]):
        labs.append("scaling")
    if any(d.get("grid", "") != "" for d in sp["params"] + sp["vars"]):
        labs.append("per-interval p/v")
    if sp.get("substages"):
        labs.append("multi-stage")
    return labs


def nontrivial(case):
    return len(feature_labels(case)) > 4 or case["when"] != "before"


def classify(case):
    return feature_labels(case)


def abbreviate(case):
    sp = case["spec"]
    return {"method": sp["method"], "T": sp["T"], "t0": sp["t0"], "when": case["when"], "features": feature_labels(case), "rng": case["rng"]}


ACCESSORS = ["states", "controls", "algebraics"]


def check(case, ctx):
    sp = copy.deepcopy(case["spec"])
    if any(c04.degenerate(c, {d["name"] for d in sp["params"]}) for c in sp.get("constraints", [])):
        ctx.count("relation_collapses_symbolically")
        return []
    m = sp["method"]
    rng = np.random.default_rng(case["rng"])
    feats = {"method": m["cls"], "when": case["when"], "multistage": bool(sp.get("substages"))}
    sp["objective"] = sp["objective"] + gen.activation_objective(sp)
    sp.setdefault("solver", ["ipopt", {"ipopt.max_iter": 2}])
    B = build(sp)
    ocp = B.ocp
    fails = []
    spR = copy.deepcopy(sp)
    for name, val in case.get("late", []):
        for d in spR["params"]:
            if d["name"] == name:
                d["value"] = val
    if case.get("edit"):
        spR["constraints"] = list(spR.get("constraints", [])) + [case["edit"]]
    ref_build = build(spR)          # an untouched twin written with the final values: what the original must still be after save
    nR = NLP(ref_build.ocp)
    if case["when"] == "after_query":
        ocp.jacobian()
    elif case["when"] == "after_solve":
        try:
            ocp.solve_limited()
        except Exception as ex:
            raise HarnessInconclusive("limited solve failed: %s" % str(ex)[:60])
    for name, val in case.get("late", []):
        apply_value(B, ocp, name, val)
    if case.get("edit"):
        B.stage = ocp
        apply_constraint(B, ocp, case["edit"])
        feats["edited_between_transcription_and_save"] = True
    fn = os.path.join(os.getcwd(), "case.rockit")
    try:
        ocp.save(fn)
    except Exception as ex:
        fails.append(Fail("save-raises", feats, {"message": str(ex).strip().splitlines()[-1][:200]}))
        return fails
    from rockit import Ocp
    ocp2 = Ocp.load(fn)
    ocp3 = Ocp.load(fn)      # a second copy that is edited through its accessors before its first transcription
    os.remove(fn)
    nA = NLP(ocp)       # the original after save
    nL = NLP(ocp2)      # the loaded one
    if not (nA.nx == nL.nx == nR.nx and nA.np_ == nL.np_ == nR.np_ and nA.ng == nL.ng == nR.ng):
        fails.append(Fail("nlp-dimensions", feats, {"original_after_save": [nA.nx, nA.np_, nA.ng], "loaded": [nL.nx, nL.np_, nL.ng], "untouched_twin": [nR.nx, nR.np_, nR.ng]}))
        return fails
    if not close(nL.p0, nA.p0, 0, 0) or not close(nA.p0, nR.p0, 0, 0):
        fails.append(Fail("parameter-values", feats, {"original": nA.p0, "loaded": nL.p0, "twin": nR.p0}))
    if not close(nL.x0, nR.x0, 1e-13, 1e-13):
        fails.append(Fail("starting-point-loaded", feats, {"loaded": nL.x0, "twin": nR.x0}))
    if not close(nA.x0, nR.x0, 1e-13, 1e-13):
        fails.append(Fail("starting-point-original-after-save", feats, {"original": nA.x0, "twin": nR.x0}))
    # accessors in the same order, reaching equivalent symbols
    for stage_o, stage_l in [(ocp, ocp2)] + list(zip(ocp._stages, ocp2._stages)):
        for acc in ACCESSORS:
            lo, ll = list(getattr(stage_o, acc)), list(getattr(stage_l, acc))
            if [s.shape for s in lo] != [s.shape for s in ll]:
                fails.append(Fail("accessor-" + acc, feats, {"original": [list(s.shape) for s in lo], "loaded": [list(s.shape) for s in ll]}))
        for key in ("", "control", "control+"):
            for coll in ("parameters", "variables"):
                lo, ll = list(getattr(stage_o, coll)[key]), list(getattr(stage_l, coll)[key])
                if [s.shape for s in lo] != [s.shape for s in ll]:
                    fails.append(Fail("accessor-" + coll, dict(feats, vgrid=key), {"original": [list(s.shape) for s in lo], "loaded": [list(s.shape) for s in ll]}))
        if stage_o.x.shape != stage_l.x.shape or stage_o.u.shape != stage_l.u.shape or stage_o.z.shape != stage_l.z.shape:
            fails.append(Fail("accessor-xuz", feats, {"original": [list(stage_o.x.shape), list(stage_o.u.shape)], "loaded": [list(stage_l.x.shape), list(stage_l.u.shape)]}))
    if fails:
        return fails
    # sampled quantities through the loaded accessors
    ocp.jacobian()
    ocp2.jacobian()
    for si, (so, sl) in enumerate([(ocp, ocp2)] + list(zip(ocp._stages, ocp2._stages))):
        for acc in ("states", "controls"):
            for j, (a, b) in enumerate(zip(getattr(so, acc), getattr(sl, acc))):
                nA.add("s%d:%s%d" % (si, acc, j), so.sample(ca.vec(a), grid="control")[1])
                nL.add("s%d:%s%d" % (si, acc, j), sl.sample(ca.vec(b), grid="control")[1])
        nA.add("s%d:T" % si, so.value(so.T))
        nL.add("s%d:T" % si, sl.value(sl.T))
        nA.add("s%d:tk" % si, so.sample(so.t, grid="control")[0])
        nL.add("s%d:tk" % si, sl.sample(sl.t, grid="control")[0])
    X = rng.uniform(0.3, 1.3, size=(K, nA.nx))
    evA, evL, evR = [], [], []
    for i in range(K):
        ra, rl, rr = nA.eval(X[i]), nL.eval(X[i]), nR.eval(X[i])
        evA.append(ra)
        evL.append(rl)
        evR.append(rr)
        if not close(rl["f"], rr["f"], 1e-12, 1e-12):
            fails.append(Fail("objective-loaded", feats, {"loaded": rl["f"], "twin": rr["f"]}))
            break
        if not close(ra["f"], rr["f"], 1e-12, 1e-12):
            fails.append(Fail("objective-original-after-save", feats, {"original": ra["f"], "twin": rr["f"]}))
            break
        for k in ra:
            if isinstance(k, str) and k.startswith("s") and ":" in k and not close(ra[k], rl[k], 1e-12, 1e-12):
                fails.append(Fail("sample-through-loaded-accessor", feats, {"quantity": k, "original": ra[k], "loaded": rl[k]}))
                break
    ctx.count("numeric_points", K)
    if fails:
        return fails
    rA, rL, rR = Rows.from_evals(evA), Rows.from_evals(evL), Rows.from_evals(evR)
    d = diff_rows(rL, rR, rtol=1e-11, atol=1e-12)
    if any(d.values()):
        fails.append(Fail("rows-loaded", feats, summarize_diff(d)))
    d = diff_rows(rA, rR, rtol=1e-11, atol=1e-12)
    if any(d.values()):
        fails.append(Fail("rows-original-after-save", feats, summarize_diff(d)))
    if fails:
        return fails
    # the loaded OCP is a usable OCP: its own symbols are recognised and edits through the accessors act like on a fresh twin
    twin2 = build(spR).ocp
    for so, sl in [(twin2, ocp3)] + list(zip(twin2._stages, ocp3._stages)):
        for acc in ("states", "controls", "algebraics"):
            for sym in getattr(sl, acc):
                if sym not in getattr(sl, acc):
                    fails.append(Fail("accessor-membership", dict(feats, accessor=acc), {"symbol": str(sym)}))
        try:
            for key in ("", "control", "control+"):
                for a, b in zip(so.parameters[key], sl.parameters[key]):
                    ncol = {"": 1, "control": so._method.N if hasattr(so._method, "N") else 1, "control+": (so._method.N + 1) if hasattr(so._method, "N") else 1}[key]
                    val = 0.375 * np.ones((a.shape[0], a.shape[1] * ncol))
                    so.set_value(a, val)
                    sl.set_value(b, val)
            for a, b in zip(so.controls, sl.controls):
                if a.shape[1] == 1:
                    so.set_initial(a, 0.25)
                    sl.set_initial(b, 0.25)
        except Exception as ex:
            fails.append(Fail("edit-through-loaded-accessor", feats, {"message": str(ex).strip().splitlines()[-1][:160]}))
    if not fails:
        n3, nT2 = NLP(ocp3), NLP(twin2)
        if (n3.nx, n3.np_, n3.ng) != (nT2.nx, nT2.np_, nT2.ng) or not close(n3.p0, nT2.p0, 0, 0) or not close(n3.x0, nT2.x0, 1e-13, 1e-13):
            fails.append(Fail("edited-loaded-differs-from-edited-twin", feats, {"p_loaded": n3.p0, "p_twin": nT2.p0, "max_dx0": float(np.max(np.abs(n3.x0 - nT2.x0))) if n3.nx == nT2.nx and n3.nx else None}))
        ctx.count("edited_loaded_compared")
    if fails:
        return fails
    # method / solver settings: the same short solver run on the loaded, the original and the untouched twin
    outs = []
    for o in (ocp2, ocp, ref_build.ocp):
        try:
            sol = o.solve_limited()
            opti = o._method.opti
            outs.append((DMa(sol.sol.value(opti.x)).reshape(-1), sol.stats.get("iter_count"), sol.stats.get("return_status")))
        except Exception as ex:
            outs.append(("EXC", type(ex).__name__, str(ex)[:80]))
    ctx.count("solves", 3)
    if any(isinstance(o[0], str) for o in outs):
        if not all(isinstance(o[0], str) for o in outs):
            fails.append(Fail("solve-after-save", feats, {"loaded": str(outs[0][1:]), "original": str(outs[1][1:]), "twin": str(outs[2][1:])}))
        return fails
    for name, o in (("loaded", outs[0]), ("original-after-save", outs[1])):
        if o[1] != outs[2][1] or o[2] != outs[2][2] or not close(o[0], outs[2][0], 1e-9, 1e-10):
            fails.append(Fail("solver-run-" + name, feats, {"iter_count": [o[1], outs[2][1]], "status": [o[2], outs[2][2]], "max_dx": float(np.max(np.abs(o[0] - outs[2][0]))) if len(o[0]) else 0.0}))
    return fails


TECHNIQUE = "property-based testing (Hypothesis): round-trip save/load differential against an untouched twin build; NLP data, accessors, and a short deterministic solver run compared"
LEVEL_TEXT = ("Generated-input exploration with a round-trip oracle: the loaded OCP, the original after save and an untouched twin built from the same spec must agree on NLP data, parameter values, "
              "starting point, accessor order/shapes, sampled quantities and on a 2-iteration ipopt run (method and solver settings).")
LEVEL_NOTE = "Trusted: CasADi evaluation; determinism of ipopt on identical problems; scratch files live in the check's private temp dir."
