"""C14 - scaling arguments never change the meaning of the problem."""
import copy
import numpy as np
import casadi as ca
from hypothesis import strategies as st

from vlib import gen, ref, obs
from vlib import expr as E
from vlib.build import build
from vlib.core import Fail, HarnessInconclusive
from vlib.nlp import NLP, Rows, Dictionary, diff_rows, subtract_rows, close, time_like_vars, random_points, summarize_diff, DMa
from props import c04, c05, c11

ID = "C14"
LEVEL = "exploration"
BUDGET = {"quick": (8, 40), "thorough": (16, 1200)}
K = 3
SCALES = [0.5, 2.0, 10.0, 0.1, 3.0, 1.0]
RULE = ("Generated OCP (all sampling methods, grids, horizons) with positive scale= values (scalar and element-wise) on states, controls, algebraic variables, variables of every grid kind, "
        "set_der and constraints, constant initial guesses; compared with the same spec with every scale 1 at random decision vectors transported through physical quantities. Oracles: equal "
        "objective; every row of the scaled NLP is a positive multiple of a row of the unscaled NLP and vice versa (multiset); declared constraints' slacks equal the reference instances divided "
        "by the declared scale (body and bounds); each solver variable is the physical one divided by its declared scale (measured from the dictionary); starting point in physical units == guesses. "
        "Non-trivial = a non-unit scale on a constrained quantity with non-zero bound, element-wise scale, or DirectCollocation; distinct = SHA-1 of case JSON.")
ASSUMPTIONS = ["decision vectors are matched through sampled physical quantities (variable dictionary); inconclusive when the dictionary does not determine every variable"]


def draw_scale(draw, rows, cols):
    n = rows * cols
    if n > 1 and draw(st.booleans()):
        return [draw(st.sampled_from(SCALES)) for _ in range(n)]
    return draw(st.sampled_from(SCALES))


@st.composite
def strategy_(draw):
    sp = draw(gen.base_ocp())
    g = sp["method"]["grid"]
    if g.get("localize_t0") and (g.get("localize_T") or g["cls"] == "free"):
        g["localize_t0"] = False
    for d in sp["states"] + sp["controls"] + sp.get("algebraics", []) + sp["vars"]:
        if d.get("quad"):
            continue
        d["scale"] = draw_scale(draw, d["rows"], d["cols"])
    sp["der_scale"] = {}
    for d in sp["states"]:
        if not d.get("quad") and sp.get("der") and draw(st.integers(0, 2)) == 0:
            sp["der_scale"][d["name"]] = draw(st.sampled_from(SCALES))
    sp["objective"] = [draw(c05.objective_term(sp)) for _ in range(draw(st.integers(1, 2)))]
    cons = [draw(c04.constraint(sp, allow_roots=(sp["method"]["cls"] == "DC"))) for _ in range(draw(st.integers(1, 3)))]
    for c in cons:
        if draw(st.integers(0, 3)) > 0:
            n = len(c["lhs"])
            c["scale"] = [draw(st.sampled_from(SCALES)) for _ in range(n)] if (n > 1 and draw(st.booleans())) else draw(st.sampled_from(SCALES))
    sp["constraints"] = cons
    sp["initial"] = []
    for d in sp["states"] + sp["controls"] + sp["vars"]:
        if d.get("quad") or d["cols"] != 1:
            continue
        if sp["method"]["cls"] == "DC" and d in sp["states"]:
            continue   # guesses for states under DirectCollocation are C10's subject (several defects there)
        if draw(st.booleans()):
            sp["initial"].append([d["name"], ["num", draw(gen.small())]])
    return {"spec": sp, "rng": draw(st.integers(0, 2**31 - 1))}


@st.composite
def dae_shooting_strategy(draw):
    """A scaled algebraic variable under a shooting method with a DAE integrator: its guess starts the integrator's root finder."""
    a_ = draw(st.sampled_from([0.5, 1.0, -1.0]))
    return {"kind": "dae_shooting", "cls": draw(st.sampled_from(["MS", "SS"])), "N": draw(st.integers(1, 3)), "M": draw(st.integers(1, 2)),
            "roots": [a_, a_ + draw(st.sampled_from([1.0, 2.0]))], "guess_at": draw(st.sampled_from([0.2, 0.8])), "scale": draw(st.sampled_from([0.1, 10.0, 40.0])),
            "phase": draw(st.sampled_from(["before", "after"])), "T": draw(st.sampled_from([1.0, 0.5])), "rng": 0}


@st.composite
def order_control_strategy(draw):
    """A scaled control of order k >= 1 (rockit turns it into a state with a chain of derivative controls)."""
    return {"kind": "order_control", "cls": draw(st.sampled_from(["MS", "SS", "DC"])), "N": draw(st.integers(1, 3)), "M": draw(st.integers(1, 2)), "order": draw(st.integers(1, 2)),
            "rows": draw(st.sampled_from([1, 1, 2])), "scale": draw(st.sampled_from([0.1, 5.0, 40.0])), "xscale": draw(st.sampled_from([1.0, 4.0])), "guess": draw(gen.small()), "rng": 0}


def strategy(tier):
    return st.one_of(*([strategy_()] * 8 + [dae_shooting_strategy(), order_control_strategy()]))


def unscaled(sp):
    u = copy.deepcopy(sp)
    for d in u["states"] + u["controls"] + u.get("algebraics", []) + u["vars"]:
        d.pop("scale", None)
    u["der_scale"] = {}
    for c in u["constraints"]:
        c.pop("scale", None)
    return u


def scale_vec(d):
    n = d["rows"] * d["cols"]
    s = d.get("scale", 1.0)
    return np.array(s, dtype=float) if isinstance(s, list) else np.full(n, float(s))


def nontrivial(case):
    if case.get("kind") in ("dae_shooting", "order_control"):
        return True
    sp = case["spec"]
    elementwise = any(isinstance(d.get("scale"), list) for d in sp["states"] + sp["controls"] + sp["vars"] + sp.get("algebraics", []))
    conscale = any(c.get("scale") not in (None, 1.0) for c in sp["constraints"])
    return bool(elementwise or conscale or sp["method"]["cls"] == "DC")


def classify(case):
    if case.get("kind") == "order_control":
        return ["scaled control of order >= 1", "method:" + case["cls"], "order:%d" % case["order"]]
    if case.get("kind") == "dae_shooting":
        return ["scaled algebraic guess under shooting", "method:" + case["cls"], "phase:" + case["phase"]]
    sp = case["spec"]
    labs = ["method:" + sp["method"]["cls"]]
    if any(isinstance(d.get("scale"), list) for d in sp["states"] + sp["controls"] + sp["vars"] + sp.get("algebraics", [])):
        labs.append("element-wise scale")
    if any(c.get("scale") not in (None, 1.0) for c in sp["constraints"]):
        labs.append("constraint scale")
    if any(isinstance(c.get("scale"), list) for c in sp["constraints"]):
        labs.append("vector constraint scale")
    if sp.get("der_scale"):
        labs.append("set_der scale")
    if sp.get("algebraics"):
        labs.append("algebraic scale")
    for d in sp["vars"]:
        labs.append("var-grid:" + (d.get("grid") or "global"))
    for c in sp["constraints"]:
        labs.append("rel:" + c["rel"])
    return sorted(set(labs))


def abbreviate(case):
    if case.get("kind") in ("dae_shooting", "order_control"):
        return case
    sp = case["spec"]
    return {"method": sp["method"], "states": sp["states"], "controls": sp["controls"], "vars": sp["vars"], "der_scale": sp["der_scale"],
            "constraints": [{k: v for k, v in c.items() if k in ("rel", "grid", "scale", "rhs", "lb", "ub")} for c in sp["constraints"]], "rng": case["rng"]}


def is_raw(B, mcls, lab, i):
    """Is entry i of sampled quantity `lab` a decision variable itself (rather than a propagated value)?"""
    if ":" not in lab:
        return False
    kind, name = lab.split(":", 1)
    d = B.decl[name]
    n = d["rows"] * d["cols"]
    if kind in ("intg", "roots"):
        return mcls == "DC"
    if d["kind"] == "state":
        return mcls != "SS" or (i // n) == 0
    return d["kind"] in ("control", "var", "alg")


def check_dae_shooting(case, ctx):
    """0 = (z-a)(z-b) has two roots; which one the integrator's root finder reaches depends on where it starts, i.e. on the guess for z.
    The guess is in physical units whatever the declared scale: scaled and unscaled declarations must produce the same trajectory."""
    from rockit import Ocp, MultipleShooting, SingleShooting
    from vlib.build import IPOPT_QUIET
    a_, b_ = case["roots"]
    g = a_ + case["guess_at"] * (b_ - a_)
    out = []
    for scale in (1.0, case["scale"]):
        ocp = Ocp(T=case["T"])
        x, u = ocp.state(), ocp.control()
        z = ocp.algebraic(scale=scale)
        ocp.set_der(x, z + u)
        ocp.add_alg((z - a_) * (z - b_))
        ocp.add_objective(ocp.integral(u ** 2))
        ocp.subject_to(ocp.at_t0(x) == 0)
        ocp.method({"MS": MultipleShooting, "SS": SingleShooting}[case["cls"]](N=case["N"], M=case["M"], intg="collocation"))
        ocp.solver("ipopt", dict(IPOPT_QUIET))
        if case["phase"] == "after":
            ocp.sample(x, grid="control")
        ocp.set_initial(z, g)
        try:
            sol = ocp.solve()
        except Exception as ex:
            raise HarnessInconclusive("DAE shooting problem did not solve: %s" % str(ex)[:60])
        out.append(np.asarray(sol.sample(x, grid="control")[1]).reshape(-1))
    ctx.count("solves", 2)
    ctx.count("dae_shooting_cases")
    if not close(out[0], out[1], 1e-6, 1e-7):
        return [Fail("algebraic-guess-physical-units", {"kind": "dae_shooting", "method": case["cls"], "phase": case["phase"]},
                     {"guess": g, "roots": [a_, b_], "scale": case["scale"], "x_unscaled": out[0], "x_scaled": out[1]})]
    return []


def check_order_control(case, ctx):
    """Every decision variable behind a scaled symbol is the physical value divided by the scale; guesses are physical."""
    from rockit import Ocp, MultipleShooting, SingleShooting, DirectCollocation
    from vlib.build import IPOPT_QUIET
    ocp = Ocp(T=1.0)
    x = ocp.state(scale=case["xscale"])
    u = ocp.control(case["rows"], order=case["order"], scale=case["scale"])
    ocp.set_der(x, u[0] - x)
    ocp.add_objective(ocp.integral(ca.sumsqr(u) + x ** 2))
    ocp.subject_to(ocp.at_t0(x) == 1)
    ocp.set_initial(u, case["guess"])
    kw = {"N": case["N"], "M": case["M"]}
    ocp.method({"MS": MultipleShooting, "SS": SingleShooting, "DC": DirectCollocation}[case["cls"]](**kw))
    ocp.solver("ipopt", dict(IPOPT_QUIET))
    feats = {"kind": "order_control", "method": case["cls"], "order": case["order"]}
    nlp = NLP(ocp)
    fails = []
    for name, sym, sc in (("u", u, case["scale"]), ("x", x, case["xscale"])):
        val = ca.vec(ca.MX(ocp.sample(sym, grid="control")[1]))
        JF = ca.Function("J", [nlp.x, nlp.p], [ca.jacobian(val, nlp.x)], {"allow_free": True})
        if JF.has_free():
            continue
        J = np.array(JF(np.full(nlp.nx, 0.3), nlp.p0))
        if not np.allclose(J, np.array(JF(np.full(nlp.nx, -0.7), nlp.p0))):
            continue       # propagated values (SingleShooting beyond the first node): not decision variables themselves
        raw = [i for i in range(J.shape[0]) if np.count_nonzero(J[i]) == 1]        # entries that are a decision variable themselves
        got = sorted({round(float(J[i][np.nonzero(J[i])[0][0]]), 12) for i in raw})
        if raw and got != [float(sc)]:
            fails.append(Fail("variable-scale", dict(feats, symbol=name), {"d_physical_d_solver": got, "declared_scale": sc}))
    start = DMa(ocp.initial_value(ocp.sample(u, grid="control")[1]))
    first = start.reshape(case["rows"], -1)[:, 0]
    if not close(first, np.full(case["rows"], float(case["guess"])), 1e-12, 1e-12):
        fails.append(Fail("guess-physical-units", dict(feats, symbol="u"), {"start": first, "guess": case["guess"]}))
    ctx.count("order_control_cases")
    return fails


def check(case, ctx):
    if case.get("kind") == "order_control":
        return check_order_control(case, ctx)
    if case.get("kind") == "dae_shooting":
        return check_dae_shooting(case, ctx)
    spA = copy.deepcopy(case["spec"])
    m = spA["method"]
    if any(c04.degenerate(c, {d["name"] for d in spA["params"]}) for c in spA["constraints"]):
        ctx.count("shifted_operand_cancels_symbolically")
        return []
    N, M = m["N"], m["M"]
    dc = m["cls"] == "DC"
    rng = np.random.default_rng(case["rng"])
    spA["objective"] = spA["objective"] + gen.activation_objective(spA)
    spB = unscaled(spA)
    feats = {"method": m["cls"]}
    BA, BB = build(spA), build(spB)
    nA, nB = NLP(BA.ocp), NLP(BB.ocp)
    if nA.nx != nB.nx:
        raise HarnessInconclusive("variable count differs")
    rawA, rawB = c11.raw_quantities(BA, dc), c11.raw_quantities(BB, dc)
    dA, dB = Dictionary(nA, rawA, rng), Dictionary(nB, rawB, rng)
    if not dA.covers() or not dB.covers():
        raise HarnessInconclusive("dictionary does not cover the NLP")
    fails = []
    # ---- solver variable == physical / declared scale
    decl_scale = {}
    for d in spA["states"] + spA["controls"] + spA.get("algebraics", []) + spA["vars"]:
        if not d.get("quad"):
            decl_scale[d["name"]] = scale_vec(d)
    for (lab, i), row in dA.index.items():
        if not dA.linear[row] or not is_raw(BA, m["cls"], lab, i):
            continue
        name = lab.split(":", 1)[1]
        if name not in decl_scale:
            continue
        coefs = dA.J[row]
        nz = np.nonzero(np.abs(coefs) > 1e-14)[0]
        if len(nz) != 1:
            continue
        el = i % len(decl_scale[name])     # entries are stacked column-major: element index first
        want = decl_scale[name][el]
        if not close(coefs[nz[0]], want, rtol=1e-12, atol=0):
            fails.append(Fail("variable-scale", dict(feats, kind=BA.decl[name]["kind"], vgrid=BA.decl[name].get("grid")),
                              {"quantity": lab, "element": int(el), "d(physical)/d(solver variable)": coefs[nz[0]], "declared_scale": want}))
            return fails
    # ---- starting point in physical units
    q0A, q0B = dA.values(nA.x0), dB.values(nB.x0)
    for lab, row in dA.index.items():
        if lab in dB.index and dA.linear[row] and not close(q0A[row], q0B[dB.index[lab]], rtol=1e-12, atol=1e-12):
            fails.append(Fail("starting-point-physical", feats, {"quantity": lab, "scaled": q0A[row], "unscaled": q0B[dB.index[lab]]}))
            return fails
    guesses = {n: g[1] for n, g in spA["initial"]}
    for (lab, i), row in dA.index.items():
        if (lab.startswith("sig:") or lab.startswith("glob:")) and lab.split(":", 1)[1] in guesses and dA.linear[row] and is_raw(BA, m["cls"], lab, i):
            if not close(q0A[row], guesses[lab.split(":", 1)[1]], rtol=1e-12, atol=1e-12):
                fails.append(Fail("guess-physical-units", feats, {"quantity": lab, "start": q0A[row], "guess": guesses[lab.split(":", 1)[1]]}))
                return fails
    # ---- rows and objective at transported points
    probes = obs.stage_probes(BB, "main", dc=dc, intg=True)
    nB.add_all(probes)
    tlB = time_like_vars(nB, [rawB["tk"], rawB["T"]])
    XB = random_points(nB, rng, K, time_like=tlB)
    evA, evB = [], []
    for i in range(K):
        qB = dB.values(XB[i])
        targets = {lab: qB[idx] for lab, idx in dB.index.items() if lab in dA.index and dA.linear[dA.index[lab]]}
        xA, res, rank = dA.solve_for(targets)
        if res > 1e-9 or rank < nA.nx:
            raise HarnessInconclusive("transport not unique/consistent")
        ra, rb = nA.eval(xA), nB.eval(XB[i])
        evA.append(ra)
        evB.append(rb)
        if not close(ra["f"], rb["f"], rtol=1e-9, atol=1e-9):
            fails.append(Fail("objective", feats, {"scaled": ra["f"], "unscaled": rb["f"]}))
            return fails
    ctx.count("numeric_points", K)
    rowsA, rowsB = Rows.from_evals(evA), Rows.from_evals(evB)
    # the decision vector is transported between the two NLPs by least squares (~1e-9 relative), which single shooting amplifies
    # through the propagated states: directions agree to 1e-6
    d = diff_rows(rowsA, rowsB, rtol=1e-6, atol=1e-8, upto_scale=True)
    if any(d.values()):
        fails.append(Fail("feasible-set", feats, summarize_diff(d)))
        return fails
    # ---- declared constraints: slack == reference slack / declared scale (body and bounds)
    R = ref.StageRef(spB)
    for ci, c in enumerate(spA["constraints"]):
        n = len(c["lhs"])
        sc = c.get("scale", 1.0)
        scv = np.array(sc, dtype=float) if isinstance(sc, list) else np.full(n, float(sc))
        lists = []
        for i in range(K):
            data = ref.override_params(obs.unpack(evB[i], "main"), spB, N)
            tr = ref.Traj(R, data, M)
            envs = {"control": ref.grid_envs(tr, data, "control"), "integrator": ref.grid_envs(tr, data, "integrator")}
            if dc:
                envs["integrator_roots"] = ref.grid_envs(tr, data, "integrator_roots", degree=m["degree"])
            lists.append(c04.instance_slacks(c, envs, tr, N, M))
        exp = Rows()
        for j in range(len(lists[0])):
            el = lists[0][j][2]
            vec = np.array([lists[i][j][1] for i in range(K)]) / scv[el]
            (exp.add_eq if lists[0][j][0] == "e" else exp.add_ineq)(vec)
        _, missing = subtract_rows(rowsA, exp, rtol=1e-6, atol=1e-8)      # (same transport tolerance as above)
        ctx.count("declared_instances", exp.count())
        if missing.count():
            f = dict(feats, **c04.con_features(c, spA))
            f["vector_scale"] = isinstance(sc, list)
            fails.append(Fail("constraint-scale", f, {"constraint": ci, "scale": sc, "missing": missing.count(), "expected": exp.count(), "first": (missing.eq + missing.ineq)[:2]}))
    return fails


TECHNIQUE = "property-based testing (Hypothesis): differential scaled vs unscaled NLP matched through physical quantities; rows compared up to positive factors, declared constraints against reference slacks / scale"
LEVEL_TEXT = ("Generated-input exploration with a differential oracle (same spec, all scales 1), a measured variable dictionary (d physical / d solver variable must be the declared scale) and the "
              "reference enumeration of constraint instances divided by the declared constraint scale.")
LEVEL_NOTE = "Trusted: CasADi evaluation; the variable dictionary; reference instance enumeration shared with C04."
