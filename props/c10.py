"""C10 - the solver starts from exactly the user's initial guess."""
import copy
import math
import numpy as np
import casadi as ca
from hypothesis import strategies as st

from vlib import gen, ref, obs
from vlib import expr as E
from vlib.build import build, apply_initial
from vlib.core import Fail, HarnessInconclusive
from vlib.nlp import NLP, close, DMa

ID = "C10"
LEVEL = "exploration"
BUDGET = {"quick": (8, 60), "thorough": (16, 2000)}
RULE = ("Generated OCP (all sampling methods, N 1..4, M 1..3, every grid class incl. localized, fixed/free horizon, optional scaling) and a generated sequence of set_initial calls: "
        "targets = column states, controls, variables of each grid kind, algebraic variables (DirectCollocation), T and t0; forms = number, n-vector (list / 1-D numpy / DM), n x N and "
        "n x (N+1) arrays (numpy, DM, 1-D for scalars), expression of t; repeated calls per symbol; each call before or after the first transcription. Read-back through "
        "ocp.initial_value(ocp.sample(sym, grid)) on every grid where the symbol has its own decision variables (DirectCollocation: integrator and integrator_roots too). Oracle: reference "
        "value per variable (constant / column of its interval or node / expression at the variable's own time on the grid implied by guessed t0,T / 0 if never given / last call wins); same "
        "start for before- and after-transcription orders; objective and constraint data unchanged by guesses. Non-trivial = array or time-expression guess, DirectCollocation helper states, a guess "
        "after transcription, or scaling; distinct = SHA-1 of case JSON.")
ASSUMPTIONS = ["ocp.initial_value(ocp.sample(..)) reads the start value in physical units (sample itself is C07's subject)"]


def numel(d):
    return d["rows"] * d["cols"]


@st.composite
def guess_for(draw, d, N, kind):
    """kind: 'node' (N+1 own values), 'interval' (N own values), 'global'."""
    n = numel(d)
    forms = [("num", 3)]
    if n > 1:
        forms.append(("vec", 2))
    if kind != "global":
        forms += [("arrN", 3), ("arrN1", 3), ("expr", 4)]
    form = gen.weighted(draw, forms)
    if form == "num":
        return {"form": "num", "value": draw(gen.small())}
    if form == "vec":
        return {"form": "vec", "value": [draw(gen.small()) for _ in range(n)], "container": draw(st.sampled_from(["list", "np1d", "npcol", "dm"]))}
    if form in ("arrN", "arrN1"):
        ncol = N if form == "arrN" else N + 1
        if n == 1 and ncol == 1:
            return {"form": "num", "value": draw(gen.small())}
        cont = draw(st.sampled_from(["np", "dm"] + (["np1d", "dmcol"] if n == 1 else [])))
        return {"form": form, "value": [[draw(gen.small()) for _ in range(ncol)] for _ in range(n)], "container": cont}
    exprs = []
    for _ in range(n):
        a, b, c = draw(gen.small()), draw(gen.small()), draw(gen.small())
        exprs.append(["+", ["*", E.C(a), ["sin", ["*", E.C(b), ["t"]]]], ["*", E.C(c), ["t"]]])
    return {"form": "expr", "value": exprs}


@st.composite
def strategy_(draw):
    sp = draw(gen.base_ocp(horizons=("num", "free"), table_kw={"shapes": [(1, 1), (1, 1), (2, 1), (3, 1)], "max_params": 1}, alg_odds=(1, 2)))
    m = sp["method"]
    N = m["N"]
    if sp.get("algebraics") and draw(st.booleans()):
        # a vector-valued algebraic variable declared before the scalar one: guesses address rows of the stacked algebraic vector
        xl = gen.leaves_of([d for d in sp["states"] if not d.get("quad")])[0]
        sp["algebraics"].insert(0, {"name": "zv", "rows": 2, "cols": 1})
        sp["alg"].insert(0, [["-", E.S("zv", 0), xl], ["-", E.S("zv", 1), ["*", E.C(0.5), xl]]])
    if draw(st.integers(0, 2)) == 0:
        for d in sp["states"] + sp["controls"] + sp["vars"]:
            if draw(st.booleans()):
                d["scale"] = draw(st.sampled_from([0.5, 2.0, 10.0]))
    targets = []
    for d in sp["states"]:
        if not d.get("quad"):
            targets.append((d, "node"))
    for d in sp["controls"]:
        targets.append((d, "interval"))
    for d in sp["vars"]:
        targets.append((d, {"": "global", "control": "interval", "control+": "node"}[d.get("grid", "")]))
    for d in sp.get("algebraics", []):
        if d["rows"] == 1:
            targets.append((d, "alg"))
    ops = []
    for _ in range(draw(st.integers(1, 5))):
        r = draw(st.integers(0, 11))
        if r == 0 and sp["T"][0] == "free":
            ops.append({"sym": "T", "guess": {"form": "num", "value": draw(st.sampled_from([0.5, 1.5, 2.0]))}, "phase": draw(st.sampled_from(["before", "after"]))})
            continue
        if r == 1 and sp["t0"][0] == "free":
            ops.append({"sym": "t0", "guess": {"form": "num", "value": draw(st.sampled_from([0.5, -1.0, 2.0]))}, "phase": draw(st.sampled_from(["before", "after"]))})
            continue
        d, kind = draw(st.sampled_from(targets))
        if kind == "alg":
            g = draw(st.sampled_from([{"form": "num", "value": draw(gen.small())},
                                      {"form": "expr", "value": [["*", E.C(draw(gen.small())), ["sin", ["t"]]]]}]))
        else:
            g = draw(guess_for(d, N, kind))
        ops.append({"sym": d["name"], "guess": g, "phase": draw(st.sampled_from(["before", "before", "after"]))})
    if sp.get("algebraics") and draw(st.booleans()):
        # a time-varying guess for the algebraic variable: every collocation point of every integrator step has its own time
        ops.insert(draw(st.integers(0, len(ops))), {"sym": sp["algebraics"][-1]["name"], "phase": draw(st.sampled_from(["before", "after"])),
                                                    "guess": {"form": "expr", "value": [["+", ["*", E.C(draw(gen.small())), ["sin", ["t"]]], ["*", E.C(draw(gen.small())), ["t"]]]]}})
    return {"spec": sp, "ops": ops, "rng": draw(st.integers(0, 2**31 - 1))}


@st.composite
def parent_strategy(draw):
    """A parent Ocp without dynamics of its own: global variables of the parent next to 1-2 stages."""
    nv = draw(st.integers(1, 2))
    pvars = [{"rows": draw(st.sampled_from([1, 1, 2, 3]))} for _ in range(nv)]
    stages = [{"cls": draw(st.sampled_from(["MS", "SS", "DC"])), "N": draw(st.integers(1, 3)), "T": draw(st.sampled_from([1.0, 2.0])), "t0": draw(st.sampled_from([0.0, 1.0]))} for _ in range(draw(st.integers(1, 2)))]
    ops = []
    for _ in range(draw(st.integers(1, 4))):
        tgt = draw(st.sampled_from(["pv%d" % i for i in range(nv)] + ["sx%d" % i for i in range(len(stages))] + ["su%d" % i for i in range(len(stages))]))
        rows = pvars[int(tgt[2:])]["rows"] if tgt.startswith("pv") else 1
        val = draw(gen.small()) if (rows == 1 or draw(st.booleans())) else [draw(gen.small()) for _ in range(rows)]
        ops.append({"sym": tgt, "value": val, "phase": draw(st.sampled_from(["before", "after"]))})
    return {"kind": "parent", "pvars": pvars, "stages": stages, "ops": ops, "rng": draw(st.integers(0, 2**31 - 1))}


def strategy(tier):
    return st.one_of(strategy_(), strategy_(), strategy_(), strategy_(), strategy_(), strategy_(), strategy_(), parent_strategy())


def nontrivial(case):
    if case.get("kind") == "parent":
        return True
    sp = case["spec"]
    scaled = any("scale" in d for d in sp["states"] + sp["controls"] + sp["vars"])
    return bool(any(o["guess"]["form"] in ("arrN", "arrN1", "expr") for o in case["ops"]) or any(o["phase"] == "after" for o in case["ops"])
                or scaled or (sp["method"]["cls"] == "DC"))


def kind_of(sp, name):
    if name in ("T", "t0"):
        return "horizon"
    for d in sp["states"]:
        if d["name"] == name:
            return "state"
    for d in sp["controls"]:
        if d["name"] == name:
            return "control"
    for d in sp.get("algebraics", []):
        if d["name"] == name:
            return "alg"
    for d in sp["vars"]:
        if d["name"] == name:
            return "var:" + (d.get("grid") or "global")
    raise KeyError(name)


def classify(case):
    if case.get("kind") == "parent":
        return sorted(set(["parent Ocp with stages"] + ["guess:" + ("parent variable" if o["sym"].startswith("pv") else "stage " + ("state" if o["sym"][1] == "x" else "control")) for o in case["ops"]]
                          + ["phase:" + o["phase"] for o in case["ops"]]))
    sp = case["spec"]
    labs = ["method:" + sp["method"]["cls"], "grid:" + sp["method"]["grid"]["cls"]]
    for o in case["ops"]:
        labs.append("guess:%s/%s" % (kind_of(sp, o["sym"]), o["guess"]["form"]))
        labs.append("phase:" + o["phase"])
    names = [o["sym"] for o in case["ops"]]
    if len(set(names)) < len(names):
        labs.append("repeated-symbol")
    return sorted(set(labs))


def abbreviate(case):
    if case.get("kind") == "parent":
        return case
    sp = case["spec"]
    return {"method": sp["method"], "T": sp["T"], "t0": sp["t0"], "ops": case["ops"], "rng": case["rng"]}


def to_builder_guess(d, g):
    """Translate a guess description into the builder's value language."""
    f = g["form"]
    if f == "num":
        return ["num", g["value"]]
    if f == "vec":
        c = g["container"]
        if c == "list":
            return ["raw", list(g["value"])]
        if c == "np1d":
            return ["np1d", g["value"]]
        if c == "npcol":
            return ["arr", [[v] for v in g["value"]]]
        return ["dm", [[v] for v in g["value"]]]
    if f in ("arrN", "arrN1"):
        c = g["container"]
        if c == "np":
            return ["arr", g["value"]]
        if c == "dm":
            return ["dm", g["value"]]
        if c == "np1d":
            return ["np1d", g["value"][0]]
        if c == "dmcol":
            return ["dm", [[v] for v in g["value"][0]]]
    if f == "expr":
        return ["expr", g["value"], d["rows"] if d else 1, d["cols"] if d else 1]
    raise ValueError(g)


def ref_value(g, el, col, t):
    """Reference start value of element `el` of a variable living on column `col` (interval/node) at time t."""
    if g is None:
        return 0.0
    f = g["form"]
    if f == "num":
        return g["value"]
    if f == "vec":
        return g["value"][el]
    if f in ("arrN", "arrN1"):
        row = g["value"][el]
        return row[min(col, len(row) - 1)]
    if f == "expr":
        return E.ev(g["value"][el], E.Env({}, t=t))
    raise ValueError(g)


def check_parent(case, ctx):
    """Guesses on a parent Ocp that has no dynamics of its own (DirectMethod.set_initial) and on its stages."""
    from rockit import Ocp, MultipleShooting, SingleShooting, DirectCollocation
    from vlib.build import IPOPT_QUIET
    ocp = Ocp()
    syms, rows = {}, {}
    obj = 0
    for i, d in enumerate(case["pvars"]):
        syms["pv%d" % i] = ocp.variable(d["rows"])
        rows["pv%d" % i] = d["rows"]
        obj = obj + ca.sumsqr(syms["pv%d" % i])
    ocp.add_objective(obj)
    for i, sd in enumerate(case["stages"]):
        stg = ocp.stage(t0=sd["t0"], T=sd["T"])
        x, u = stg.state(), stg.control()
        stg.set_der(x, u - x)
        stg.add_objective(stg.integral(u ** 2 + x ** 2))
        stg.subject_to(stg.at_t0(x) == syms["pv0"][0])
        stg.method({"MS": MultipleShooting, "SS": SingleShooting, "DC": DirectCollocation}[sd["cls"]](N=sd["N"]))
        syms["sx%d" % i], syms["su%d" % i] = x, u
        rows["sx%d" % i] = rows["su%d" % i] = 1
        syms["stage%d" % i] = stg
    ocp.solver("ipopt", dict(IPOPT_QUIET))
    owner = lambda name: ocp if name.startswith("pv") else syms["stage" + name[2:]]
    for o in [o for o in case["ops"] if o["phase"] == "before"]:
        owner(o["sym"]).set_initial(syms[o["sym"]], o["value"] if not isinstance(o["value"], list) else np.array(o["value"]))
    ocp.value(syms["pv0"])      # transcribes
    for o in [o for o in case["ops"] if o["phase"] == "after"]:
        owner(o["sym"]).set_initial(syms[o["sym"]], o["value"] if not isinstance(o["value"], list) else np.array(o["value"]))
    final = {}
    for ph in ("before", "after"):
        for o in case["ops"]:
            if o["phase"] == ph:
                final[o["sym"]] = o["value"]
    fails = []
    feats = {"kind": "parent", "stage_methods": [sd["cls"] for sd in case["stages"]]}
    for name in rows:
        want = final.get(name, 0.0)
        if name.startswith("pv"):
            got = DMa(ocp.initial_value(ocp.value(syms[name]))).reshape(-1)
            want = np.array(want if isinstance(want, list) else [want] * rows[name], dtype=float)
            if not close(got, want, 1e-12, 1e-12):
                fails.append(Fail("parent-variable-start", dict(feats, phase=[o["phase"] for o in case["ops"] if o["sym"] == name][-1:] or ["never"]), {"symbol": name, "start": got, "guess": want}))
        else:
            stg = syms["stage" + name[2:]]
            sd = case["stages"][int(name[2:])]
            got = DMa(ocp.initial_value(stg.sample(syms[name], grid="control")[1])).reshape(-1)
            if name.startswith("sx") and sd["cls"] == "SS":
                got = got[:1]
            elif name.startswith("su"):
                got = got[:sd["N"]]
            if not close(got, np.full(got.shape, float(want)), 1e-12, 1e-12):
                fails.append(Fail("stage-start-under-parent", dict(feats, target="state" if name.startswith("sx") else "control"), {"symbol": name, "start": got, "guess": want}))
    ctx.count("parent_cases")
    return fails


def check(case, ctx):
    if case.get("kind") == "parent":
        return check_parent(case, ctx)
    sp = copy.deepcopy(case["spec"])
    m = sp["method"]
    N, M = m["N"], m["M"]
    dc = m["cls"] == "DC"
    deg = m.get("degree", 0)
    feats_base = {"method": m["cls"], "tgrid": m["grid"]["cls"]}
    sp["objective"] = gen.activation_objective(sp)
    decl = {d["name"]: d for d in sp["states"] + sp["controls"] + sp["vars"] + sp.get("algebraics", [])}
    fails = []

    def apply(B, op):
        d = decl.get(op["sym"])
        bg = to_builder_guess(d, op["guess"])
        if bg[0] == "raw":
            B.ocp.set_initial(B.syms[op["sym"]], bg[1])
        else:
            apply_initial(B, B.ocp, [op["sym"], bg])

    # evolved: 'before' ops, transcription, 'after' ops (relative order inside each phase kept)
    B = build(sp)
    for op in case["ops"]:
        if op["phase"] == "before":
            apply(B, op)
    nlp0 = NLP(B.ocp)   # transcribes
    for op in case["ops"]:
        if op["phase"] == "after":
            apply(B, op)
    ocp = B.ocp
    # last call per symbol wins (calls are applied in the order before*, after*)
    ordered = [o for o in case["ops"] if o["phase"] == "before"] + [o for o in case["ops"] if o["phase"] == "after"]
    final = {}
    for o in ordered:
        final[o["sym"]] = o["guess"]
    Tg = final["T"]["value"] if "T" in final else sp["T"][1]
    t0g = final["t0"]["value"] if "t0" in final else sp["t0"][1]
    grid = m["grid"]
    nrm = ref.normalized_grid(grid, N)
    tk = t0g + Tg * nrm
    iv = lambda e: np.array(DMa(ocp.initial_value(e)), dtype=float)
    # horizon start values
    for name, want in (("T", Tg), ("t0", t0g)):
        if sp[name][0] == "free":
            got = float(iv(ocp.value(getattr(ocp, name))).reshape(-1)[0])
            if not close(got, want, 1e-12, 1e-12):
                fails.append(Fail("horizon-start", dict(feats_base, target=name, phase=[o["phase"] for o in ordered if o["sym"] == name][-1:] or ["decl"]), {"start": got, "guess": want}))
    # start values of time-grid variables (localized / free grids) follow the guessed horizon
    tk_got = iv(ocp.sample(ocp.t, grid="control")[0]).reshape(-1)
    localized = bool(grid.get("localize_t0") or grid.get("localize_T") or grid["cls"] == "free")
    hga = any(o["sym"] in ("T", "t0") and o["phase"] == "after" for o in ordered)
    if not close(tk_got, tk, 2e-5 if grid["cls"] == "density" else 1e-10, 2e-5 if grid["cls"] == "density" else 1e-11):
        fails.append(Fail("grid-start", dict(feats_base, horizon_guess_after=hga, localized=localized), {"start": tk_got, "reference": tk}))

    def horizon_before(name):
        """a T/t0 guess is issued before the (last) time-expression guess of this symbol"""
        idx = [i for i, o in enumerate(ordered) if o["sym"] == name]
        return bool(idx) and ordered[idx[-1]]["guess"]["form"] == "expr" and any(o["sym"] in ("T", "t0") for o in ordered[:idx[-1]])

    def feats(name):
        g = final.get(name)
        phases = [o["phase"] for o in ordered if o["sym"] == name]
        return dict(horizon_guess_precedes_expr=horizon_before(name), horizon_guess_after_on_localized=(hga and localized), **dict(feats_base, target=kind_of(sp, name), form=(g["form"] if g else "none"), container=(g or {}).get("container"),
                    phase=(phases[-1] if phases else "none"), repeated=len(phases) > 1, vector=numel(decl[name]) > 1, scaled="scale" in decl[name]))

    def compare(name, sub, got, want, extra=None):
        ctx.count("values_compared", int(np.size(want)))
        if got.shape != want.shape:
            got = got.reshape(want.shape)
        tol = 2e-5 if (grid["cls"] == "density" and final.get(name, {}).get("form") == "expr") else 1e-10
        if not close(got, want, tol, tol):
            fails.append(Fail(sub, feats(name), dict({"symbol": name, "start": got, "reference": want}, **(extra or {}))))

    for name, d in decl.items():
        g = final.get(name)
        n = numel(d)
        kd = kind_of(sp, name)
        sym = B.syms[name]
        if kd == "alg":
            if not dc or g is None:
                continue
            got = iv(ocp.sample(ca.vec(sym), grid="integrator_roots")[1])
            want = np.zeros((n, N * M * deg))
            col = ref.Colloc(deg, m["scheme"])
            for k in range(N):
                h = (tk[k + 1] - tk[k]) / M
                for l in range(M):
                    for j in range(deg):
                        for el in range(n):
                            want[el, (k * M + l) * deg + j] = ref_value(g, el, k, tk[k] + l * h + col.tau[j] * h)
            compare(name, "algebraic-start", got, want)
            continue
        if kd == "var:global":
            got = iv(ocp.value(ca.vec(sym))).reshape(-1)
            want = np.array([ref_value(g, el, 0, math.nan) for el in range(n)])
            compare(name, "global-start", got, want)
            continue
        got = iv(ocp.sample(ca.vec(sym), grid="control")[1]).reshape(n, -1)
        if kd in ("control", "var:control"):
            want = np.array([[ref_value(g, el, k, tk[k]) for k in range(N)] for el in range(n)])
            compare(name, "interval-start", got[:, :N], want)
        elif kd == "var:control+":
            want = np.array([[ref_value(g, el, k, tk[k]) for k in range(N + 1)] for el in range(n)])
            compare(name, "node-start", got, want)
        elif kd == "state":
            if m["cls"] == "SS":
                want = np.array([[ref_value(g, el, 0, tk[0])] for el in range(n)])
                compare(name, "state-start", got[:, :1], want)
            else:
                want = np.array([[ref_value(g, el, k, tk[k]) for k in range(N + 1)] for el in range(n)])
                compare(name, "state-start", got, want)
            if dc:
                col = ref.Colloc(deg, m["scheme"])
                gi = iv(ocp.sample(ca.vec(sym), grid="integrator")[1]).reshape(n, -1)
                gr = iv(ocp.sample(ca.vec(sym), grid="integrator_roots")[1]).reshape(n, -1)
                wi = np.zeros((n, N * M + 1))
                wr = np.zeros((n, N * M * deg))
                for k in range(N):
                    h = (tk[k + 1] - tk[k]) / M
                    for l in range(M):
                        for el in range(n):
                            wi[el, k * M + l] = ref_value(g, el, k, tk[k] + l * h)
                            for j in range(deg):
                                wr[el, (k * M + l) * deg + j] = ref_value(g, el, k, tk[k] + l * h + col.tau[j] * h)
                for el in range(n):
                    wi[el, N * M] = ref_value(g, el, N, tk[N])
                compare(name, "dc-integrator-start", gi, wi)
                compare(name, "dc-helper-start", gr, wr)
    if fails:
        return fails
    # order independence: everything declared before the first transcription gives the same starting point
    B2 = build(sp)
    for op in ordered:
        apply(B2, op)
    n2 = NLP(B2.ocp)
    nE = NLP(ocp)
    if nE.nx == n2.nx and not close(nE.x0, n2.x0, 1e-10, 1e-11):
        fails.append(Fail("phase-dependence", dict(feats_base, horizon_guess_precedes_expr=any(horizon_before(n) for n in decl), horizon_guess_after_on_localized=(hga and localized)),
                          {"after_transcription": nE.x0, "all_before": n2.x0}))
    # guesses never change the problem data
    B3 = build(sp)
    n3 = NLP(B3.ocp)
    if n3.nx == nE.nx:
        x = np.random.default_rng(case["rng"]).uniform(0.3, 1.3, nE.nx)
        ra, rb = nE.eval(x), n3.eval(x)
        if not (close(ra["f"], rb["f"], 1e-12, 1e-12) and close(ra["g"], rb["g"], 1e-12, 1e-12) and close(ra["lbg"], rb["lbg"], 0, 0) and close(ra["ubg"], rb["ubg"], 0, 0)):
            fails.append(Fail("guess-changes-problem", feats_base, {"f": [ra["f"], rb["f"]]}))
    return fails


TECHNIQUE = "property-based testing (Hypothesis): generated set_initial call sequences (forms x targets x before/after transcription), reference model of the start value per decision variable"
LEVEL_TEXT = ("Generated-input exploration over guess forms, targets, call order and methods with a reference model of the expected start value of every decision variable read back in physical "
              "units; plus order-independence (before/after transcription) and invariance of objective/constraints under guesses.")
LEVEL_NOTE = "Trusted: ocp.initial_value / ocp.sample as read-back; numpy expression interpreter; closed-form grids."
