"""C16 - der() is the total time derivative along the declared dynamics."""
import copy
import math
import numpy as np
import casadi as ca
from numpy.polynomial import polynomial as P
from hypothesis import strategies as st

from vlib import gen, ref, obs
from vlib import expr as E
from vlib.build import build, vec_expr, make_method
from vlib.core import Fail, HarnessInconclusive
from vlib.nlp import NLP, close, DMa

ID = "C16"
LEVEL = "exploration"
BUDGET = {"quick": (8, 70), "thorough": (16, 4000)}
NPTS = 4
RULE = ("Two generated families. formula: a generated ODE (vector/matrix states, controls, parameters, variables, explicit t), optional higher-order control (order 1..3) and B-spline variable "
        "(order 1..4), and a generated nonlinear vector-valued expression e(x,t,p,v, chain top member, spline); ocp.der(e) evaluated numerically at 4 random points must equal the Richardson-extrapolated "
        "central difference of the reference evaluation of e along (x + h f(x,u,p,t), t + h, s + h ds) and, on a subset, d/dt of e along a DOP853 trajectory. chain: a control of order k under "
        "SingleShooting rk; every member reached by repeated der() is sampled on a refined grid and must be a polynomial of degree k-j per control interval whose derivative is the next member, continuous "
        "across intervals, the last member being the piecewise-constant decision; spline_der: every existing derivative of a B-spline variable/parameter, sampled after transcription under SplineMethod "
        "with T in {0.5, 1, 2.5}, equals the derivative of the scipy spline through the same coefficients; der() of the order-0 member / of a degree-0 spline / beyond a spline's degree must raise. "
        "Non-trivial = explicit t and state dependence together, a chain, or a spline; distinct = SHA-1 of case JSON.")
ASSUMPTIONS = ["finite differences with h=1e-3 / 5e-4 and Richardson extrapolation resolve derivatives of the bounded generated expressions to 1e-7"]


@st.composite
def strategy_(draw):
    kind = gen.weighted(draw, [("formula", 6), ("chain", 2), ("spline_der", 1)])
    if kind == "spline_der":
        # every derivative of a B-spline variable/parameter that exists, in physical time (T != 1 included), after transcription
        return {"kind": "spline_signal", "c16": True, "N": draw(st.integers(1, 5)), "grid": draw(gen.grid(classes=("uniform", "geometric", "function"), localize=False)),
                "order_v": draw(st.integers(1, 4)), "order_p": draw(st.integers(1, 4)), "rows": draw(st.sampled_from([1, 1, 2])), "T": draw(st.sampled_from([1.0, 2.5, 0.5])),
                "t0": draw(st.sampled_from([0.0, 1.0])), "refine": draw(st.integers(1, 4)), "rng": draw(st.integers(0, 2**31 - 1))}
    if kind == "chain":
        k = draw(st.integers(1, 3))
        N = draw(st.integers(1, 3))
        M = draw(st.integers(1, 2))
        grid = draw(gen.grid(classes=("uniform", "geometric", "function"), localize=False))
        return {"kind": "chain", "order": k, "rows": draw(st.sampled_from([1, 1, 2])), "N": N, "M": M, "grid": grid, "T": draw(st.sampled_from([1.0, 2.0, 0.5])), "t0": draw(st.sampled_from([0.0, 1.0])),
                "rng": draw(st.integers(0, 2**31 - 1))}
    dae = draw(st.integers(0, 3)) == 0
    tab = draw(gen.symbol_table(max_states=2, max_controls=1, max_params=2, max_vars=2, grids=("", "control"), alg=1 if dae else 0))
    sp = {"name": "main"}
    sp.update(tab)
    sp["T"], sp["t0"] = ["num", 1.0], ["num", 0.0]
    sp["der"] = gen.dynamics(draw, tab, t_prob=8)
    if dae:
        # a semi-explicit DAE: the algebraic value enters every right-hand side (der(e) is taken along f(x,u,z,p,t))
        z = E.S(tab["algebraics"][0]["name"], 0)
        for name, exprs in sp["der"]:
            for i in range(len(exprs)):
                exprs[i] = ["+", exprs[i], ["*", E.C(draw(gen.coef())), z]]
        x0 = gen.leaves_of(tab["states"])[0]
        sp["alg"] = [[["-", z, ["*", ["sin", ["t"]], x0]]]]
    gen.fill_param_values(draw, sp, 2)
    sp["dyn_concat"] = draw(st.integers(0, 2)) == 0        # der() uses the right-hand sides however they were declared
    sp["dyn_reversed"] = draw(st.integers(0, 2)) == 0
    horder = draw(st.sampled_from([0, 0, 1, 2, 3]))
    sorder = draw(st.sampled_from([0, 0, 1, 2, 4]))
    sorder2 = draw(st.sampled_from([0, 1, 3])) if sorder else 0      # a second B-spline signal, declared after the first
    leaves = gen.leaves_of(sp["states"]) + gen.leaves_of(sp["params"]) + gen.leaves_of(sp["vars"])
    extra = []
    if horder:
        extra.append(E.S("hc", 0))
    if sorder:
        extra.append(E.S("bs", 0))
    if sorder2:
        extra.append(E.S("bs2", 0))
    r, c = draw(st.sampled_from([(1, 1), (1, 1), (2, 1), (1, 2), (2, 2)]))
    exprs = []
    for _ in range(r * c):
        e = draw(gen.free_expr(leaves + extra, depth=3))
        if extra and draw(st.booleans()):
            e = ["+", e, ["*", draw(st.sampled_from(extra)), draw(st.sampled_from(leaves))]]
        if sorder2 and draw(st.booleans()):
            e = ["+", e, ["*", E.S("bs2", 0), ["sq", E.S("bs", 0)]]]      # the later signal appears first
        if not E.has_op(e, "t") and draw(st.integers(0, 2)) > 0:
            e = ["+", e, ["*", ["sin", ["t"]], draw(st.sampled_from(leaves))]]
        exprs.append(e)
    return {"kind": "formula", "spec": sp, "horder": horder, "sorder": sorder, "sorder2": sorder2, "expr": exprs, "shape": [r, c], "rng": draw(st.integers(0, 2**31 - 1))}


def strategy(tier):
    return strategy_()


def nontrivial(case):
    if case["kind"] in ("chain", "spline_signal"):
        return True
    has_t = any(E.has_op(e, "t") for e in case["expr"])
    has_x = any(E.syms_in(e) & {d["name"] for d in case["spec"]["states"]} for e in case["expr"])
    return bool((has_t and has_x) or case["horder"] or case["sorder"])


def classify(case):
    if case["kind"] == "spline_signal":
        return ["spline derivatives after transcription", "order_v:%d" % case["order_v"], "order_p:%d" % case["order_p"], "T:%s" % case["T"]]
    if case["kind"] == "chain":
        return ["chain", "order:%d" % case["order"], "grid:" + case["grid"]["cls"]]
    labs = ["formula", "shape:%dx%d" % tuple(case["shape"])]
    if case["horder"]:
        labs.append("higher-order control")
    if case["sorder"]:
        labs.append("bspline signal")
    if any(E.has_op(e, "t") for e in case["expr"]):
        labs.append("explicit t")
    if case["spec"].get("alg"):
        labs.append("DAE right-hand side")
    return labs


def abbreviate(case):
    if case["kind"] in ("chain", "spline_signal"):
        return case
    return {"kind": "formula", "der": case["spec"]["der"][:1], "expr": case["expr"][:2], "shape": case["shape"], "horder": case["horder"], "sorder": case["sorder"], "rng": case["rng"]}


def check_formula(case, ctx):
    sp = copy.deepcopy(case["spec"])
    rng = np.random.default_rng(case["rng"])
    r, c = case["shape"]
    feats = {"kind": "formula", "horder": case["horder"], "sorder": case["sorder"], "explicit_t": any(E.has_op(e, "t") for e in case["expr"])}
    B = build(sp, skip=("solver",))
    ocp = B.ocp
    # extra symbols declared on the same OCP
    chain = []
    if case["horder"]:
        hc = ocp.control(order=case["horder"])
        B.syms["hc"] = hc
        B.decl["hc"] = {"name": "hc", "rows": 1, "cols": 1, "kind": "state", "stage": "main"}
    if case["sorder"]:
        bs = ocp.variable(grid="bspline", order=case["sorder"])
        B.syms["bs"] = bs
        B.decl["bs"] = {"name": "bs", "rows": 1, "cols": 1, "kind": "var", "stage": "main", "grid": "bspline"}
    if case.get("sorder2"):
        bs2 = ocp.variable(grid="bspline", order=case["sorder2"])
        B.syms["bs2"] = bs2
        B.decl["bs2"] = {"name": "bs2", "rows": 1, "cols": 1, "kind": "var", "stage": "main", "grid": "bspline"}
    B.stage = ocp
    e_mx = vec_expr(B, case["expr"], r, c, ocp)
    fails = []
    de = ocp.der(e_mx)
    if case["horder"]:
        cur = B.syms["hc"]
        chain = [cur]
        for j in range(case["horder"]):
            cur = ocp.der(cur)
            if not (isinstance(cur, ca.MX) and cur.is_symbolic()):
                fails.append(Fail("chain-member-not-a-signal", feats, {"member": j + 1, "der": str(cur)[:80]}))
                return fails
            chain.append(cur)
    dbs = ocp.der(B.syms["bs"]) if case["sorder"] else None
    dbs2 = ocp.der(B.syms["bs2"]) if case.get("sorder2") else None
    names = [n for n, d in B.decl.items() if n not in ("hc", "bs", "bs2")]
    ins = [B.syms[n] for n in names] + [ocp.t]
    if case["horder"]:
        ins += chain
    if case["sorder"]:
        ins += [B.syms["bs"], dbs]
    if case.get("sorder2"):
        ins += [B.syms["bs2"], dbs2]
    F = ca.Function("F", ins, [de])
    if F.has_free():
        fails.append(Fail("der-has-free-symbols", feats, {"free": str(F.get_free())}))
        return fails
    if tuple(de.shape) != (r, c):
        fails.append(Fail("der-shape", feats, {"shape": list(de.shape), "expected": [r, c]}))
        return fails
    R = ref.StageRef(sp)
    for pt in range(NPTS):
        vals = {}
        args = []
        for n in names:
            d = B.decl[n]
            v = rng.uniform(-1, 1, d["rows"] * d["cols"])
            vals[n] = v
            args.append(ca.DM(v.reshape((d["cols"], d["rows"])).T))
        t = float(rng.uniform(-1, 2))
        args.append(t)
        cvals = rng.uniform(-1, 1, case["horder"] + 1) if case["horder"] else []
        if case["horder"]:
            args += [float(v) for v in cvals]
            vals["hc"] = np.array([cvals[0]])
        sv, dsv = float(rng.uniform(-1, 1)), float(rng.uniform(-1, 1))
        if case["sorder"]:
            args += [sv, dsv]
            vals["bs"] = np.array([sv])
        sv2, dsv2 = float(rng.uniform(-1, 1)), float(rng.uniform(-1, 1))
        if case.get("sorder2"):
            args += [sv2, dsv2]
            vals["bs2"] = np.array([sv2])
        got = DMa(F(*args))
        x = np.concatenate([vals[d["name"]] for d in R.states]) if R.states else np.zeros(0)
        base = {n: v for n, v in vals.items()}
        f, _ = R.rhs(x, base, t)

        def along(h):
            v2 = dict(vals)
            R.split(R.states, x + h * f, v2)
            if case["horder"]:
                v2["hc"] = np.array([cvals[0] + h * cvals[1]])
            if case["sorder"]:
                v2["bs"] = np.array([sv + h * dsv])
            if case.get("sorder2"):
                v2["bs2"] = np.array([sv2 + h * dsv2])
            env = E.Env(v2, t=t + h)
            return np.array([E.ev(e, env) for e in case["expr"]]).reshape((c, r)).T

        def cd(h):
            return (along(h) - along(-h)) / (2 * h)
        h = 1e-3
        want = (4 * cd(h / 2) - cd(h)) / 3
        if not np.all(np.isfinite(want)):
            raise HarnessInconclusive("reference overflow")
        if not close(got, want, 1e-6, 1e-7):
            fails.append(Fail("total-derivative", feats, {"der": got, "finite_difference": want, "t": t}))
            return fails
    ctx.count("numeric_points", NPTS)
    # along an exact trajectory (independent of the chain rule): d/dt e(x(t), t)
    if not case["horder"] and not case["sorder"] and R.states:
        from scipy.integrate import solve_ivp
        vals = {n: rng.uniform(-1, 1, B.decl[n]["rows"] * B.decl[n]["cols"]) for n in names}
        x0 = np.concatenate([vals[d["name"]] for d in R.states])
        t = float(rng.uniform(-1, 2))
        rhs = lambda tt, xx: R.rhs(xx, vals, tt)[0]
        dlt = 2e-3

        def e_at(tt, xx):
            v2 = dict(vals)
            R.split(R.states, xx, v2)
            return np.array([E.ev(e, E.Env(v2, t=tt)) for e in case["expr"]]).reshape((c, r)).T
        outs = {}
        for sgn in (1, -1):
            for mult in (1, 0.5):
                sol = solve_ivp(rhs, [t, t + sgn * mult * dlt], x0, method="DOP853", rtol=1e-13, atol=1e-14)
                outs[(sgn, mult)] = e_at(t + sgn * mult * dlt, sol.y[:, -1])
        d1 = (outs[(1, 1)] - outs[(-1, 1)]) / (2 * dlt)
        d2 = (outs[(1, 0.5)] - outs[(-1, 0.5)]) / dlt
        want = (4 * d2 - d1) / 3
        args = [ca.DM(vals[n].reshape((B.decl[n]["cols"], B.decl[n]["rows"])).T) for n in names] + [t]
        got = DMa(F(*args))
        if np.all(np.isfinite(want)) and not close(got, want, 1e-5, 1e-6):
            fails.append(Fail("derivative-along-trajectory", feats, {"der": got, "d/dt along DOP853": want}))
        ctx.count("trajectory_checks")
    # asking for a derivative that does not exist raises
    if case["horder"]:
        try:
            ocp.der(chain[-1])
            fails.append(Fail("der-of-order0-control-accepted", feats, {}))
        except Exception:
            ctx.count("nonexistent_derivative_rejected")
    if case["sorder"]:
        cur = B.syms["bs"]
        try:
            for j in range(case["sorder"] + 1):
                cur = ocp.der(cur)
            fails.append(Fail("der-beyond-spline-degree-accepted", feats, {"order": case["sorder"]}))
        except Exception:
            ctx.count("nonexistent_derivative_rejected")
    return fails


def check_chain(case, ctx):
    from rockit import Ocp
    rng = np.random.default_rng(case["rng"])
    k, N, M, rows = case["order"], case["N"], case["M"], case["rows"]
    feats = {"kind": "chain", "order": k, "tgrid": case["grid"]["cls"], "vector": rows > 1}
    ocp = Ocp(t0=case["t0"], T=case["T"])
    u = ocp.control(rows, 1, order=k)
    x = ocp.state()
    ocp.set_der(x, ca.sum1(ca.vec(u)) - x)
    ocp.add_objective(ocp.at_tf(x) ** 2 + ocp.integral(ca.sumsqr(u)))
    ocp.method(make_method({"cls": "SS", "N": N, "M": M, "intg": "rk", "grid": case["grid"]}))
    ocp.solver("ipopt", {"ipopt.print_level": 0, "print_time": False, "ipopt.sb": "yes"})
    members = [u]
    for j in range(k):
        members.append(ocp.der(members[-1]))
    fails = []
    try:
        ocp.der(members[-1])
        fails.append(Fail("der-of-order0-control-accepted", feats, {}))
    except Exception:
        ctx.count("nonexistent_derivative_rejected")
    nlp = NLP(ocp)
    Rf = 4
    for j, mem in enumerate(members[:-1]):
        t_, v_ = ocp.sample(mem, grid="integrator", refine=Rf)
        nlp.add("m%d" % j, v_)
        nlp.add("t%d" % j, t_)
    nlp.add("low", ocp.sample(members[-1], grid="control")[1])
    nlp.add("tk", ocp.sample(ocp.t, grid="control")[0])
    xx = rng.uniform(-1, 1, nlp.nx)
    res = nlp.eval(xx)
    tk = res["tk"].reshape(-1)
    low = res["low"].reshape(rows, -1)
    per = M * Rf
    for el in range(rows):
        polys = []
        for j in range(k):
            vals = res["m%d" % j].reshape(rows, -1)[el]
            tt = res["t%d" % j].reshape(-1)
            pj = []
            for i in range(N):
                sl = slice(i * per, i * per + per + 1)
                s = (tt[sl] - tk[i]) / (tk[i + 1] - tk[i])
                cf = P.polyfit(s, vals[sl], k - j)
                resid = np.max(np.abs(P.polyval(s, cf) - vals[sl]))
                if resid > 1e-8 * (1 + np.max(np.abs(vals[sl]))):
                    fails.append(Fail("chain-member-not-polynomial", feats, {"member": j, "interval": i, "degree": k - j, "residual": resid}))
                    return fails
                pj.append(cf)
            polys.append(pj)
        for i in range(N):
            dt = tk[i + 1] - tk[i]
            for j in range(k):
                d = P.polyder(polys[j][i]) / dt
                nxt = polys[j + 1][i] if j + 1 < k else np.array([low[el, i]])
                n = max(len(d), len(nxt))
                if not close(np.pad(d, (0, n - len(d))), np.pad(nxt, (0, n - len(nxt))), 1e-6, 1e-7):
                    fails.append(Fail("chain-derivative-mismatch", feats, {"member": j, "interval": i, "d/dt member": d, "next member": nxt}))
                    return fails
                if i + 1 < N and not close(P.polyval(1.0, polys[j][i]), P.polyval(0.0, polys[j][i + 1]), 1e-8, 1e-9):
                    fails.append(Fail("chain-member-discontinuous", feats, {"member": j, "node": i + 1}))
                    return fails
    ctx.count("chain_members", k * rows)
    return fails


def check(case, ctx):
    if case["kind"] == "spline_signal":
        # der() of a B-spline signal, k times, is the k-th time derivative of the spline (scipy reference); shared with C17
        from props import c17
        return c17.check_spline_signal(case, ctx)
    return check_formula(case, ctx) if case["kind"] == "formula" else check_chain(case, ctx)


TECHNIQUE = "property-based testing (Hypothesis): ocp.der(e) against Richardson finite differences of an independent evaluator along the reference vector field and along DOP853 trajectories; polynomial-chain structure of higher-order controls"
LEVEL_TEXT = ("Generated-input exploration with a numerical-differentiation oracle (directional derivative of the reference evaluation of e along the reference right-hand side, and along scipy trajectories), "
              "structural checks of the derivative chain of higher-order controls on refined samples, and rejection of non-existent derivatives.")
LEVEL_NOTE = "Trusted: scipy DOP853 at rtol 1e-13, Richardson extrapolation of central differences, numpy polyfit."
