"""C04 - every constraint is imposed exactly where declared, and nothing else is."""
import copy
import numpy as np
from hypothesis import strategies as st

from vlib import gen, ref, obs
from vlib import expr as E
from vlib.build import build
from vlib.core import Fail, HarnessInconclusive
from vlib.nlp import NLP, Rows, diff_rows, subtract_rows, time_like_vars, random_points, summarize_diff

ID = "C04"
LEVEL = "exploration"
BUDGET = {"quick": (8, 60), "thorough": (16, 2000)}
K = 3
RULE = ("Generated OCP (all three sampling methods, N 1..4, M 1..3, degree 1..5, every grid class, fixed/free/parametric horizon) plus 1-3 generated "
        "constraints: relation in {<=,>=,==,two-sided}, scalar or vector, over states/controls/time/parameters/variables incl. per-interval kinds and "
        "next/prev/offset operands, grid in {default, control, integrator, integrator_roots}, include_first/include_last, and boundary constraints mixing "
        "at_t0/at_tf; rows(NLP with constraints) minus rows(NLP without) must equal, as a multiset of slack functions evaluated at 3 random decision vectors, "
        "the instances enumerated by the reference model. Non-trivial = a constraint with an offset operand, a non-control grid, a cleared include flag, "
        "a per-interval operand or vector value; distinct = SHA-1 of the case JSON.")
ASSUMPTIONS = ["two transcriptions of the same spec (with / without the constraints) create decision variables in the same order; checked by equal variable count, otherwise the case is counted inconclusive",
               "ingredient values at grid points are read with ocp.sample on control/integrator/integrator_roots grids"]


def lead_coef():
    return st.sampled_from([c for c in gen.COEFS if abs(c) != 1.0])


def wrap_offsets(draw, e, N, prob=3):
    """Replace some symbol leaves (or t) by offset operands."""
    op = e[0]
    if op in ("sym", "t"):
        if draw(st.integers(0, 9)) < prob:
            o = draw(st.sampled_from([o for o in (-2, -1, -1, 1, 1, 2) if abs(o) <= N]))
            node = ["off", e, o]
            if o == 1 and draw(st.booleans()):
                node.append("next")
            if o == -1 and draw(st.booleans()):
                node.append("prev")
            return node
        return e
    if op in E.UNARY:
        return [op, wrap_offsets(draw, e[1], N, prob)]
    if op in E.BINARY:
        return [op, wrap_offsets(draw, e[1], N, prob), wrap_offsets(draw, e[2], N, prob)]
    return e


@st.composite
def constraint(draw, sp, allow_roots=True, allow_scale=False):
    m = sp["method"]
    N = m["N"]
    mcls = m["cls"]
    sig = gen.signal_leaves(sp)
    dec = gen.signal_leaves(sp, with_params=False)
    # a path constraint is recognised by rockit through a genuine signal operand (state, control, per-interval variable)
    true_sig = gen.leaves_of([d for d in sp["states"] if not d.get("quad")]) + gen.leaves_of(sp["controls"]) + \
        gen.leaves_of([d for d in sp["vars"] if d.get("grid", "") != ""])
    globs = gen.leaves_of([d for d in sp["params"] if d.get("grid", "") == ""])
    kind = gen.weighted(draw, [("control", 5), ("integrator", 2), ("roots", 2 if allow_roots else 0), ("point", 3)])
    n = gen.weighted(draw, [(1, 3), (2, 1), (3, 1)])
    c = {}
    if kind == "point":
        lhs = []
        for _ in range(n):
            a = draw(st.sampled_from(dec))
            pa = draw(st.sampled_from(["at_t0", "at_tf"]))
            # separate placeholders and a leading coefficient != +-1: the decision operand can never cancel symbolically
            e = ["+", ["*", E.C(draw(lead_coef())), [pa, a]], [pa, draw(gen.free_expr([a] + sig[:3], depth=1))]]
            if draw(st.booleans()):
                pb = draw(st.sampled_from(["at_t0", "at_tf"]))
                e = ["+", e, [pb, draw(gen.free_expr(sig, depth=2))]]
            if draw(st.integers(0, 4)) == 0:
                e = ["+", e, ["*", E.C(draw(gen.small())), ["T"]]]
            if draw(st.integers(0, 4)) == 0 and globs:
                e = ["+", e, draw(st.sampled_from(globs))]
            lhs.append(e)
        c["lhs"] = lhs
        # a boundary / point constraint is imposed once, also when the user passes a grid option along with it
        c["grid"] = draw(st.sampled_from([None, None, None, "control", "integrator"]))
    else:
        pool = sig
        if kind == "roots" and mcls == "DC":
            pool = sig + gen.leaves_of(sp.get("algebraics", []))
        lhs = []
        for _ in range(n):
            a = draw(st.sampled_from(true_sig))
            rest = draw(gen.free_expr(pool, depth=2))
            if kind == "control":
                rest = wrap_offsets(draw, rest, N)
            # the leading term stays unshifted: rockit recognises a path constraint by an unshifted signal operand
            e = ["+", ["*", E.C(draw(lead_coef())), a], rest]
            lhs.append(e)
        c["lhs"] = lhs
        c["grid"] = {"control": draw(st.sampled_from([None, "control"])), "integrator": "integrator", "roots": "integrator_roots"}[kind]
        c["include_first"] = draw(st.sampled_from([True, True, False]))
        c["include_last"] = draw(st.sampled_from([True, True, False]))
    rel = draw(st.sampled_from(["<=", ">=", "==", "box"] + (["box"] if n > 1 else [])))
    c["rel"] = rel
    if allow_scale and draw(st.integers(0, 3)) == 0:
        c["scale"] = [draw(st.sampled_from([0.5, 2.0, 10.0])) for _ in range(n)] if (n > 1 and draw(st.booleans())) else draw(st.sampled_from([0.5, 2.0, 10.0]))
    if rel == "box":
        lo = draw(gen.small())
        c["lb"] = [E.C(lo)]
        c["ub"] = [E.C(lo + draw(st.sampled_from([0.5, 1.0, 2.0])))]
        if n > 1 and draw(st.booleans()):
            c["lb"] = [E.C(lo), E.C(lo - 0.5)]
            c["ub"] = [E.C(lo + 1.0), E.C(lo + 0.25)]
        if n > 1 and draw(st.booleans()):
            # element-wise bounds with some entries infinite (one-sided elements inside a two-sided vector relation)
            lb, ub = [], []
            for i in range(n):
                side = draw(st.sampled_from(["both", "both", "lower-open", "upper-open"])) if i else "both"
                l_i = lo - 0.25 * i
                lb.append(E.C(float("-inf") if side == "lower-open" else l_i))
                ub.append(E.C(float("inf") if side == "upper-open" else l_i + 1.0))
            c["lb"], c["ub"] = lb, ub
            if allow_scale and "scale" not in c and draw(st.booleans()):
                c["scale"] = [draw(st.sampled_from([0.5, 2.0, 10.0])) for _ in range(n)] if draw(st.booleans()) else draw(st.sampled_from([0.5, 2.0, 10.0]))
    else:
        def bound():
            b = E.C(draw(gen.small()))
            if globs and draw(st.integers(0, 2)) == 0:
                b = ["+", b, draw(st.sampled_from(globs))]
            return b
        c["rhs"] = [bound()] if (n == 1 or draw(st.booleans())) else [bound() for _ in range(n)]
    return c


@st.composite
def strategy_(draw):
    sp = draw(gen.base_ocp())
    nc = draw(st.integers(1, 3))
    cons = []
    have_unplaceable = False
    for _ in range(nc):
        c = draw(constraint(sp, allow_roots=not have_unplaceable, allow_scale=True))
        if c.get("grid") == "integrator_roots" and sp["method"]["cls"] != "DC":
            have_unplaceable = True
        cons.append(c)
    sp["constraints"] = cons
    return {"spec": sp, "rng": draw(st.integers(0, 2**31 - 1))}


def strategy(tier):
    return strategy_()


def con_has_offset(c):
    return any(E.has_op(e, "off") for e in c["lhs"])


def con_features(c, sp):
    per_int = {d["name"] for d in sp["params"] + sp["vars"] if d.get("grid", "") != ""}
    names = set()
    for e in c["lhs"] + c.get("rhs", []):
        names |= E.syms_in(e)
    offs = sorted({n[2] for e in c["lhs"] for n in E.walk(e) if n[0] == "off"})
    return {"grid": c.get("grid") or ("point" if any(E.has_op(e, "at_t0", "at_tf") for e in c["lhs"]) else "control"),
            "neg_offset": any(o < 0 for o in offs), "pos_offset": any(o > 0 for o in offs),
            "include_first": c.get("include_first", True), "include_last": c.get("include_last", True),
            "per_interval": bool(names & per_int), "vector": len(c["lhs"]) > 1, "rel": c["rel"]}


def nontrivial(case):
    sp = case["spec"]
    for c in sp["constraints"]:
        f = con_features(c, sp)
        if f["neg_offset"] or f["pos_offset"] or f["grid"] not in ("control", "point") or not f["include_first"] or not f["include_last"] or f["per_interval"] or f["vector"]:
            return True
    return False


def classify(case):
    sp = case["spec"]
    m = sp["method"]
    labs = ["method:" + m["cls"], "grid:" + m["grid"]["cls"]]
    for c in sp["constraints"]:
        f = con_features(c, sp)
        labs.append("cgrid:" + f["grid"])
        labs.append("rel:" + f["rel"])
        if f["neg_offset"]:
            labs.append("offset<0")
        if f["pos_offset"]:
            labs.append("offset>0")
        if not f["include_first"]:
            labs.append("include_first=False")
        if not f["include_last"]:
            labs.append("include_last=False")
        if f["per_interval"]:
            labs.append("per-interval operand")
        if f["vector"]:
            labs.append("vector")
        if f["grid"] == "integrator_roots" and m["cls"] != "DC":
            labs.append("unplaceable(roots without collocation)")
    return sorted(set(labs))


def abbreviate(case):
    sp = case["spec"]
    return {"method": sp["method"], "t0": sp["t0"], "T": sp["T"], "constraints": sp["constraints"], "rng": case["rng"]}


def degenerate(c, params=()):
    """True when a shifted operand of the constraint cancels symbolically (CasADi drops it, and with it the exclusion of the
    nodes it would reach outside the horizon): the declared relation is then not the one the reference enumerates."""
    n = len(c["lhs"])
    for i in range(n):
        parts = [c["lhs"][i]] + [c[k][i if len(c[k]) == n else 0] for k in ("rhs", "lb", "ub") if k in c]
        if E.lost_offsets(parts, signals_too=True, not_decision=params):   # a shifted operand cancelled, or no decision symbol is left
            return True
    return False


def instance_slacks(c, envs_by_grid, tr, N, M):
    """Reference enumeration of the instances of one declared constraint at one numeric point."""
    out = []
    n = len(c["lhs"])
    is_point = any(E.has_op(e, "at_t0", "at_tf") for e in c["lhs"])

    def rel_slacks(evalf):
        for i in range(n):
            lhs = evalf(c["lhs"][i])
            if c["rel"] == "box":
                lb = evalf(c["lb"][i if len(c["lb"]) == n else 0])
                ub = evalf(c["ub"][i if len(c["ub"]) == n else 0])
                out.extend(sl + (i,) for sl in ref.slacks("box", lhs, lb=lb, ub=ub) if np.isfinite(sl[1]))   # an infinite bound is no row
            else:
                rhs = evalf(c["rhs"][i if len(c["rhs"]) == n else 0])
                out.extend(sl + (i,) for sl in ref.slacks(c["rel"], lhs, rhs=rhs))     # (kind, slack, element)

    if is_point:
        rel_slacks(lambda e: ref.ev_top(e, tr))
        return out
    grid = c.get("grid") or "control"
    envs = envs_by_grid[grid]
    first, last = c.get("include_first", True), c.get("include_last", True)
    for idx, env in enumerate(envs):
        if grid in ("control", "integrator"):
            if idx == 0 and not first:
                continue
            if idx == len(envs) - 1 and not last:
                continue
        try:
            save = len(out)
            rel_slacks(lambda e: E.ev(e, env))
        except E.OutOfHorizon:
            del out[save:]   # an operand reaches outside the horizon: the whole instance is dropped
    return out


def check(case, ctx):
    sp = case["spec"]
    m = sp["method"]
    if any(degenerate(c, {d["name"] for d in sp["params"]}) for c in sp["constraints"]):
        ctx.count("shifted_operand_cancels_symbolically")
        return []
    rng = np.random.default_rng(case["rng"])
    N, M = m["N"], m["M"]
    dc = m["cls"] == "DC"
    spA = copy.deepcopy(sp)
    spA["objective"] = gen.activation_objective(sp)
    spB = copy.deepcopy(spA)
    spB["constraints"] = []
    unplaceable = [c for c in sp["constraints"] if c.get("grid") == "integrator_roots" and not dc]
    feats_all = [con_features(c, sp) for c in sp["constraints"]]
    base_feats = {"method": m["cls"], "tgrid": m["grid"]["cls"]}
    if unplaceable:
        try:
            BA = build(spA)
            nA = NLP(BA.ocp)
        except Exception:
            ctx.count("unplaceable_rejected")
            return []
        f = dict(base_feats)
        f["grid"] = "integrator_roots"
        return [Fail("unplaceable-accepted", f, {"rows": nA.ng, "note": "grid='integrator_roots' under a method without collocation points was accepted"})]
    BA = build(spA)
    nA = NLP(BA.ocp)
    probes = obs.stage_probes(BA, "main", dc=dc, intg=True)
    nA.add_all(probes)
    BB = build(spB)
    nB = NLP(BB.ocp)
    if nA.nx != nB.nx or nA.np_ != nB.np_:
        raise HarnessInconclusive("variable count differs between the with/without transcriptions")
    tl = time_like_vars(nA, [probes["main|tk"], probes["main|T"]])
    X = random_points(nA, rng, K, time_like=tl)
    R = ref.StageRef(sp)
    evA, evB = [], []
    per_con = [[] for _ in sp["constraints"]]   # per constraint: K lists of (kind, value)
    for i in range(K):
        ra = nA.eval(X[i])
        rb = nB.eval(X[i])
        evA.append(ra)
        evB.append(rb)
        data = ref.override_params(obs.unpack(ra, "main"), sp, N)
        tr = ref.Traj(R, data, M)
        envs = {"control": ref.grid_envs(tr, data, "control"), "integrator": ref.grid_envs(tr, data, "integrator")}
        if dc:
            envs["integrator_roots"] = ref.grid_envs(tr, data, "integrator_roots", degree=m["degree"])
        for ci, c in enumerate(sp["constraints"]):
            per_con[ci].append(instance_slacks(c, envs, tr, N, M))
    rowsA = Rows.from_evals(evA)
    rowsB = Rows.from_evals(evB)
    added, lost = subtract_rows(rowsA, rowsB, rtol=1e-8, atol=1e-9)
    fails = []
    if lost.count():
        fails.append(Fail("base-rows-lost", base_feats, {"lost": lost.count()}))
    ctx.count("numeric_points", K)
    ctx.count("rows_compared", added.count())
    # expected rows per constraint; match constraint by constraint so that a mismatch is attributed
    remaining = added
    for ci, c in enumerate(sp["constraints"]):
        exp = Rows()
        lists = per_con[ci]
        if len({len(l) for l in lists}) != 1:
            raise HarnessInconclusive("instance count depends on the numeric point")
        for j in range(len(lists[0])):
            kind = lists[0][j][0]
            vec = np.array([lists[i][j][1] for i in range(K)])
            if c.get("scale") is not None:
                # subject_to(..., scale=s): body and bounds divided by s, element-wise
                sc = c["scale"]
                vec = vec / (float(sc[lists[0][j][2]]) if isinstance(sc, list) else float(sc))
            if not np.all(np.isfinite(vec)):
                raise HarnessInconclusive("non-finite reference slack")
            (exp.add_eq if kind == "e" else exp.add_ineq)(vec)
        remaining, missing = subtract_rows(remaining, exp, rtol=1e-8, atol=1e-9)
        ctx.count("instances_expected", exp.count())
        if missing.count():
            f = dict(base_feats)
            f.update(feats_all[ci])
            fails.append(Fail("instances-missing", f, {"constraint": ci, "missing": missing.count(), "expected": exp.count(),
                                                       "first": (missing.eq + missing.ineq)[:2]}))
    if remaining.count():
        f = dict(base_feats)
        # attribute to the union of features (cannot know which declaration produced a surplus row)
        f["grids"] = sorted({ff["grid"] for ff in feats_all})
        fails.append(Fail("surplus-rows", f, {"surplus": remaining.count(), "first": (remaining.eq + remaining.ineq)[:2]}))
    return fails


TECHNIQUE = "property-based testing (Hypothesis): differential NLP (with/without constraints) against instances enumerated by a numpy reference model; slack-signature multiset equality at random decision vectors"
LEVEL_TEXT = ("Generated-input exploration. For every generated constraint set the rows that the constraints add to the real NLP are compared, as a multiset and in both "
              "directions, with the reference model's enumeration of grid points, include flags, shifted operands and boundary instances; placements impossible for the method must raise.")
LEVEL_NOTE = "Trusted: CasADi evaluation of rockit's symbolic NLP; ocp.sample read-back of ingredient values (C07); identical variable order of two transcriptions of one spec (checked by count)."
