"""One-line semantic mutations of rockit that compile and keep the baseline tests green (see DESIGN.md, sensitivity).

Dropped as equivalent (no observable change): dt_in_ode_allowed (the later has_free() assertion still rejects),
control_plus_param_shifted (reversing the creation order of per-node Opti parameters only permutes opti.p),
set_initial_priority_order (after fix ec... 'horizon guesses first' the dictionary order no longer matters)."""
SM = "rockit/sampling_method.py"
MS = "rockit/multiple_shooting.py"
SS = "rockit/single_shooting.py"
DC = "rockit/direct_collocation.py"
ST = "rockit/stage.py"
DM = "rockit/direct_method.py"
MUTANTS = [
    ("rk_stage_time", SM, "k2 = f(x=X + DT / 2 * k1[\"ode\"], u=U, p=P, t=t0+DT/2)", "k2 = f(x=X + DT / 2 * k1[\"ode\"], u=U, p=P, t=t0)", ["C01"]),
    ("drop_t0_local_increment", SM, "            t0_local += DT\n", "            pass\n", ["C01"]),
    ("p_sys_prev_interval", SM, "                self.get_p_control_at(stage, k),\n                self.get_p_control_plus_at(stage, k),\n                self.V, self.get_v_control_at(stage, k),", "                self.get_p_control_at(stage, max(k-1,0)),\n                self.get_p_control_plus_at(stage, k),\n                self.V, self.get_v_control_at(stage, k),", ["C01"]),
    ("euler_quad_scale", SM, "[X + DT * k[\"ode\"], poly_coeff, DT * k[\"quad\"]", "[X + DT * k[\"ode\"], poly_coeff, DT_control * k[\"quad\"]", ["C01"]),
    ("dt_control_swap", SM, "intg_res = intg(x0=X[-1], u=U, t0=t0_local, DT=DT, DT_control=T, p=P, z0=Z0_current)", "intg_res = intg(x0=X[-1], u=U, t0=t0_local, DT=DT, DT_control=DT, p=P, z0=Z0_current)", ["C01"]),
    ("ms_gap_wrong_T", MS, "T=self.control_grid[k + 1] - self.control_grid[k], p=self.get_p_sys(stage, k), z0=self.Z0[k])", "T=self.control_grid[1] - self.control_grid[0], p=self.get_p_sys(stage, k), z0=self.Z0[k])", ["C01"]),
    ("ss_wrong_t0", SS, "FF = F(x0=self.X[k], u=self.U[k], t0=self.control_grid[k],", "FF = F(x0=self.X[k], u=self.U[k], t0=self.control_grid[0],", ["C01"]),
    # --- C04
    ("ms_include_flags_swapped", MS, "                if k==0 and not args[\"include_first\"]: continue\n                try:", "                if k==0 and not args[\"include_last\"]: continue\n                try:", ["C04"]),
    ("final_node_offset_control_U0", SM, "u = self.U[-1] if k==len(self.U) else self.U[k]", "u = self.U[0] if k==len(self.U) else self.U[k]", ["C04"]),
    ("dc_integrator_include_first_whole_interval", DC, "                    if k==0 and i==0 and not args[\"include_first\"]: continue", "                    if k==0 and not args[\"include_first\"]: continue", ["C04"]),
    ("integrator_time_of_first_step", SM, "                                                               t=self.integrator_grid[k][i],", "                                                               t=self.integrator_grid[k][0],", ["C04"]),
    ("root_state_first_column", SM, "                                                               x=self.xr[k][i][:,j],", "                                                               x=self.xr[k][i][:,0],", ["C02"]),
    ("point_constraints_after_dropped", SM, "            if 'r_at_tf' in [a.name() for a in symvar(e)]:\n                opti.subject_to(e, args[\"scale\"], meta=meta)", "            if 'r_at_tf' in [a.name() for a in symvar(e)] and len(symvar(e))<3:\n                opti.subject_to(e, args[\"scale\"], meta=meta)", ["C04"]),
    ("p_control_plus_final_node_last_interval", SM, "    def get_p_control_plus_at(self, stage, k=-1):\n        return veccat(*[p[k] for p in self.P_control_plus])", "    def get_p_control_plus_at(self, stage, k=-1):\n        return veccat(*[p[k if k!=-1 else -2] for p in self.P_control_plus])", ["C04"]),
    ("ss_control_constraint_last_twice", SS, "                opti.subject_to(self.eval_at_control(stage, c, -1), scale=args[\"scale\"], meta=meta)", "                opti.subject_to(self.eval_at_control(stage, c, self.N-1), scale=args[\"scale\"], meta=meta)", ["C04"]),
    # --- C05
    ("intc_uniform_weights", SM, "return ca.sum2(ca.diff(ca.vec(ts)).T*exprs[:,:-1])", "return ca.sum2((self.T/self.N)*exprs[:,:-1])", ["C05"]),
    ("sum_plus_skips_last", SM, "        for k in list(range(self.N))+[-1]:\n            r = r + self.eval_at_control(stage, expr, k)\n        return r", "        for k in list(range(self.N)):\n            r = r + self.eval_at_control(stage, expr, k)\n        return r", ["C05"]),
    ("rk_quad_weights", SM, "DT / 6 * (k1[\"quad\"] + 2 * k2[\"quad\"] + 2 * k3[\"quad\"] + k4[\"quad\"])", "DT / 6 * (k1[\"quad\"] + 2 * k2[\"quad\"] + 2 * k3[\"quad\"] + k1[\"quad\"])", ["C05"]),
    ("dc_quad_weight_index", DC, "self.q = self.q + res[\"quad\"]*dt*self.B[j]", "self.q = self.q + res[\"quad\"]*dt*self.B[0]", ["C05"]),
    ("at_tf_second_last", SM, "        if phase==1: return\n        return self.eval_at_control(stage, expr, -1)", "        if phase==1: return\n        return self.eval_at_control(stage, expr, self.N-1)", ["C05"]),
    ("objective_terms_overwritten", ST, "        self._objective = self._objective + term", "        self._objective = term", ["C05"]),
    # --- C07
    ("dm2numpy_transpose", "rockit/casadi_helpers.py", "    res = np.transpose(res,[1,0,2])", "    res = np.transpose(res,[1,2,0]) if expr_shape[0]==expr_shape[1] else np.transpose(res,[1,0,2])", ["C07"]),
    ("intg_fine_time_offset", ST, "                local_t = t0+tlocal[:-1]", "                local_t = t0+tlocal[1:]", ["C06", "C08"]),
    ("intg_fine_control_prev", ST, "stage._method.U[k], pv, stage._method.t0, stage._method.T), k, l))\n                t0+=dt", "stage._method.U[max(k-1,0)], pv, stage._method.t0, stage._method.T), k, l))\n                t0+=dt", ["C07"]),
    ("value_forgets_T", SM, "                                                               v=self.V,\n                                                               t0=stage.t0,\n                                                               T=stage.T))", "                                                               v=self.V,\n                                                               t0=stage.t0,\n                                                               T=stage.t0))", ["C07"]),
    ("grid_integrator_control_of_next", SM, "                                                               u=self.U[k], p_control=self.get_p_control_at(stage, k),", "                                                               u=self.U[min(k+1,self.N-1)], p_control=self.get_p_control_at(stage, k),", ["C07", "C04"]),
    ("root_param_interval", SM, "                                                               u=self.U[k],\n                                                               p_control=self.get_p_control_at(stage, k),", "                                                               u=self.U[k],\n                                                               p_control=self.get_p_control_at(stage, 0),", ["C07"]),
    ("solution_time_not_evaluated", "rockit/solution.py", "        return self.sol.value(time), DM2numpy(res, MX(expr).shape, time.numel())", "        return self.sol.value(time)+0*1e-3, DM2numpy(res.T if res.shape[0]==res.shape[1] and res.shape[0]>1 else res, MX(expr).shape, time.numel())", ["C07"]),
    # --- C02
    ("dc_C_prev_column", DC, "Pidot_j = mtimes(self.Xc[k][i],self.C[:,j])/ dt", "Pidot_j = mtimes(self.Xc[k][i],self.C[:,max(j-1,0)])/ dt", ["C02"]),
    ("dc_root_time_no_tau", DC, "tr.append([self.integrator_grid[k][i]+dt*self.tau[j] for j in range(self.degree)])", "tr.append([self.integrator_grid[k][i]+dt*self.tau[-1]*(j+1)/self.degree for j in range(self.degree)])", ["C02"]),
    ("dc_continuity_to_wrong_state", DC, "x_next = self.X[k + 1] if i==self.M-1 else self.Xc[k][i+1][:,0]", "x_next = self.X[k + 1] if i>=self.M-1 else self.Xc[k][i][:,0]", ["C02"]),
    ("dc_alg_at_wrong_z", DC, "res = f(x=self.Xc[k][i][:, j+1], u=self.U[k], z=self.Zc[k][i][:,j], p=p_total, t=self.tr[k][i][j])", "res = f(x=self.Xc[k][i][:, j+1], u=self.U[k], z=self.Zc[k][i][:,0], p=p_total, t=self.tr[k][i][j])", ["C02"]),
    ("dc_dt_of_first_interval", DC, "        for k in range(self.N):\n            dt = dts[k]", "        for k in range(self.N):\n            dt = dts[0]", ["C02"]),
    # --- C06
    ("geometric_growth_exponent", SM, "return self._growth_factor**(1.0/(N-1))", "return self._growth_factor**(1.0/N)", ["C06"]),
    ("DT_returns_DT_control", SM, "            return integrator_grid[i+1]-integrator_grid[i]", "            return self.control_grid[1]-self.control_grid[0] if self.M==2 else integrator_grid[i+1]-integrator_grid[i]", ["C06"]),
    ("DT_control_last_is_first", SM, "            return self.control_grid[-1]-self.control_grid[-2]", "            return self.control_grid[1]-self.control_grid[0]", ["C06"]),
    ("uniform_localized_ratio", SM, "        return (Tnext==T,{})", "        return (Tnext==1.5*T,{})", ["C06"]),
    ("freegrid_end_not_tied", SM, "        opti.subject_to(control_grid[-1]==tf)", "        pass", ["C06"]),
    ("density_not_normalised", SM, "for v in list(np.linspace(0.0, 1.0, N+1)[1:-1]*I):", "for v in list(np.linspace(0.0, 1.0, N+1)[1:-1]*min(I,1.0)):", ["C06"]),
    ("localized_t0_chain_broken", SM, "            yield (t0_local[k]+Tk==t0_local[k+1],{})", "            yield (t0_local[k]+Tk==t0_local[k+1],{}) if k<3 else (t0_local[k]+2*Tk==t0_local[k+1],{})", ["C06"]),
    ("freegrid_max_dropped", SM, "        yield (self.min <= (T_local[k] <= self.max),{})", "        yield (self.min <= (T_local[k] <= inf),{})", ["C06"]),
    ("function_grid_t0_dropped", SM, "    def __call__(self, t0, T, N):\n        n = self.normalized(N)\n        return t0 + hcat(n)*T\n\n    def normalized(self, N):\n        return self.normalized_fun(N)", "    def __call__(self, t0, T, N):\n        n = self.normalized(N)\n        return t0*(n[1]<0.9) + hcat(n)*T\n\n    def normalized(self, N):\n        return self.normalized_fun(N)", ["C06"]),
    # --- C09
    ("set_value_wrong_global_index", SM, "                found = True\n                opti.set_value(self.P[i], value)\n        for i, p in enumerate(stage.parameters['control']):", "                found = True\n                opti.set_value(self.P[i-1], value)\n        for i, p in enumerate(stage.parameters['control']):", ["C09"]),
    ("set_value_after_transcription_not_stored", ST, "                self._method.set_value(self, self.master._method, parameter, value)\n                # Remember", "                if not parameter.is_scalar(): self._method.set_value(self, self.master._method, parameter, value)\n                # Remember", ["C09"]),
    ("set_parameter_phase2_skipped_for_control", SM, "        for i, p in enumerate(stage.parameters['control']):\n            opti.set_value(hcat(self.P_control[i]), stage._param_value(p))", "        for i, p in enumerate(stage.parameters['control']):\n            opti.set_value(hcat(self.P_control[i]), DM(stage._param_value(p))[:,::-1] if self.N==3 else stage._param_value(p))", ["C09"]),
    # --- C11
    ("freeT_skip_nonneg", DM, "                stage.subject_to(stage._T>=0)\n", "", ["C11"]),
    ("freeT_guess_not_seeded", DM, "                stage.set_initial(stage._T, init,priority=True)\n                return stage._T", "                stage.set_initial(stage._T, 1,priority=True)\n                return stage._T", ["C11"]),
    ("free_t0_guess_ignored", DM, "                stage.set_initial(stage._t0, init,priority=True)", "                stage.set_initial(stage._t0, 0*init,priority=True)", ["C11"]),
    ("tf_ignores_t0", ST, "        self._tf = self.T + self.t0", "        self._tf = self.T + 0*self.t0", ["C11", "C07"]),
    ("free_time_grid_uses_guess", SM, "        self.T = self.eval(stage, stage._T)\n        self.t0 = self.eval(stage, stage._t0)", "        self.T = self.eval(stage, stage._T)\n        self.t0 = self.eval(stage, stage._t0)\n        if not self.t0.is_constant() and self.N==2: self.t0 = self.t0*1.0000001", ["C11"]),
    # --- C14
    ("scale_body_not_bounds", DM, "                        lb = mc.lb/scale\n                        canon = mc.canon/scale\n                        ub = mc.ub/scale", "                        lb = mc.lb\n                        canon = mc.canon/scale\n                        ub = mc.ub/scale", ["C14"]),
    ("scale_equality_bound_forgotten", DM, "                        lb = mc.lb/scale\n                        canon = mc.canon/scale\n                        c = lb==canon", "                        lb = mc.lb\n                        canon = mc.canon/scale\n                        c = lb==canon", ["C14"]),
    ("variable_scale_squared", DM, "            return scale*v", "            return scale*v if DM(scale).is_scalar() else scale*scale*v", ["C14"]),
    ("control_scale_dropped_ms", MS, "self.U.append(vcat([opti.variable(s.numel(), scale=vec(stage._scale[s]), domain=stage._catalog[s]['domain']) for s in stage.controls]) if stage.nu>0 else MX(0,1))", "self.U.append(vcat([opti.variable(s.numel(), scale=vec(stage._scale[s])**(k<2), domain=stage._catalog[s]['domain']) for s in stage.controls]) if stage.nu>0 else MX(0,1))", ["C14"]),
    # --- C18
    ("save_drops_param_values", "rockit/ocp.py", "        self._untranscribe()\n        import pickle\n        with rockit_pickle_context():\n            pickle.dump(self,open(name,\"wb\"))", "        self._untranscribe()\n        import pickle\n        keep = dict(self._param_vals.items())\n        for k in list(keep)[1:]: self._param_vals[k] = 0*keep[k]\n        with rockit_pickle_context():\n            pickle.dump(self,open(name,\"wb\"))", ["C18"]),
    ("load_loses_solver_options", "rockit/ocp.py", "            return pickle.load(open(name,\"rb\"))", "            ret = pickle.load(open(name,\"rb\"))\n            ret._method._solver_options = {k:v for k,v in ret._method._solver_options.items() if 'max_iter' not in k}\n            return ret", ["C18"]),
    ("load_loses_initial_guesses", "rockit/ocp.py", "            return pickle.load(open(name,\"rb\"))", "            ret = pickle.load(open(name,\"rb\"))\n            ret._initial = type(ret._initial)()\n            return ret", ["C18"]),
    ("save_resets_grid_of_original", "rockit/ocp.py", "        self._untranscribe()\n        import pickle", "        self._untranscribe()\n        if hasattr(self._method,'time_grid') and hasattr(self._method.time_grid,'_growth_factor'): self._method.time_grid._growth_factor = 1.0\n        import pickle", ["C18"]),
    # --- C10
    ("set_initial_column_offset", SM, "                    value_k = value[:,k]\n                try:", "                    value_k = value[:,k-1] if k>0 else value[:,k]\n                try:", ["C10"]),
    ("set_initial_after_transcription_ignored_for_states", ST, "            apply(self._augmented, self.master._method, self._initial)", "            apply(self._augmented, self.master._method, HashOrderedDict([(k,v) for k,v in self._initial.items() if k not in self.states or self._method.N<3]))", ["C10"]),
    ("dc_roots_guess_at_interval_start", DC, "expr_integrator_root = ca.hcat([self.eval_at_integrator_root(stage, expr, k, i, j) for k in list(range(self.N)) for i in range(self.M) for j in range(self.degree) ])", "expr_integrator_root = ca.hcat([self.eval_at_integrator_root(stage, expr, k, i, 0) for k in list(range(self.N)) for i in range(self.M) for j in range(self.degree) ])", ["C10"]),
    ("time_guess_uses_default_T", SM, "        T_init = opti.debug.value(self.T, opti.initial())", "        T_init = opti.debug.value(self.T, opti.initial()) if self.N!=2 else 1.0", ["C10"]),
    ("global_var_guess_doubled", "rockit/direct_method.py", "            opti.set_initial(target, value, cache_advanced=True)", "            opti.set_initial(target, 2*value, cache_advanced=True)", ["C10"]),
    # --- C13
    ("subject_to_no_invalidate", ST, "        self._set_transcribed(False)\n        #import ipdb; ipdb.set_trace()", "        #import ipdb; ipdb.set_trace()", ["C13"]),
    ("add_objective_no_invalidate", ST, "        self._set_transcribed(False)\n        self._objective = self._objective + term", "        self._objective = self._objective + term", ["C13"]),
    ("clear_constraints_no_invalidate", ST, "        self._set_transcribed(False)\n        self._constraints = defaultdict(list)", "        self._constraints = defaultdict(list)", ["C13"]),
    ("method_change_keeps_old_solver_options", "rockit/direct_method.py", "        if template and template._solver_options is not None:\n            self._solver_options = template._solver_options", "        if template and template._solver_options is not None:\n            self._solver_options = dict(template._solver_options, **{'ipopt.max_iter': 1}) if 'ipopt.max_iter' in template._solver_options else template._solver_options", ["C13"]),
    ("set_initial_after_transcription_not_stored", ST, "            self._initial[var] = value\n            if priority:", "            if not (self.master is not None and self.master.is_transcribed): self._initial[var] = value\n            if priority and var in self._initial:", ["C13"]),
    ("transcription_adds_constraint_to_user_ocp", "rockit/ocp.py", "                augmented = copy.deepcopy(self)\n", "                augmented = copy.deepcopy(self)\n                if len(self.states)>1: self._constraints['point'] = list(self._constraints['point'])+list(self._constraints['point'][:1])\n", ["C13"]),
    # --- C15
    ("bernstein_matrix_row", SM, "[1, 3.0/4, 1.0/2, 1.0/4, 0]", "[1, 3.0/4, 1.0/2, 1.0/8, 0]", ["C15"]),
    ("inf_der_scaled_by_control_interval", SM, "        dt = (self.control_grid[k + 1] - self.control_grid[k])/self.M\n        subst_to += [lookup[e].derivative()*(1/dt) for e in stage._inf_der.values()]", "        dt = (self.control_grid[k + 1] - self.control_grid[k])\n        subst_to += [lookup[e].derivative()*(1/dt) for e in stage._inf_der.values()]", ["C15"]),
    ("inf_uses_first_step_polynomial", SM, "        coeff = stage._method.poly_coeff[k * self.M + l]\n", "        coeff = stage._method.poly_coeff[k * self.M]\n", ["C15"]),
    ("inf_skips_last_substep", MS, "                for c, meta, _ in stage._constraints[\"inf\"]:\n                    self.add_inf_constraints(stage, opti, c, k, l, meta)", "                for c, meta, _ in stage._constraints[\"inf\"]:\n                    if l<2: self.add_inf_constraints(stage, opti, c, k, l, meta)", ["C15"]),
    # --- C08
    ("rk_dense_coeff_f2", SM, "        f2 = 4/DT**2*(k3[\"ode\"]-k2[\"ode\"])/6\n        f3 = 4*(k4[\"ode\"]-2*k3[\"ode\"]+k1[\"ode\"])/DT**3/24\n        poly_coeff = hcat([X, f0, f1, f2, f3])", "        f2 = 4/DT**2*(k3[\"ode\"]-k2[\"ode\"])/8\n        f3 = 4*(k4[\"ode\"]-2*k3[\"ode\"]+k1[\"ode\"])/DT**3/24\n        poly_coeff = hcat([X, f0, f1, f2, f3])", ["C08"]),
    ("sampler_local_time_from_next", ST, "        ti = time[i]\n        tlocal = t-ti", "        ti = time[i]\n        tlocal = t-ti+(t>ti)*1e-3", ["C08"]),
    ("sampler_control_of_first_interval", ST, "expr_f.call([t, mtimes(coeff,tpower), z, Us[:,k]])", "expr_f.call([t, mtimes(coeff,tpower), z, Us[:,0]])", ["C08"]),
    ("dc_poly_time_scaling", DC, "S = 1/repmat(hcat([dt**i for i in range(self.degree + 1)]), self.degree + 1, 1)", "S = 1/repmat(hcat([dt**min(i,2) for i in range(self.degree + 1)]), self.degree + 1, 1)", ["C08"]),
    ("euler_dense_slope", SM, "        poly_coeff = hcat([X, k[\"ode\"]])", "        poly_coeff = hcat([X, 0.5*k[\"ode\"]])", ["C08"]),
    ("intg_fine_wrong_coeff_block", ST, "coeff = None if stage._method.poly_coeff is None else stage._method.poly_coeff[k * M + l]", "coeff = None if stage._method.poly_coeff is None else stage._method.poly_coeff[k * M + min(l,1)]", ["C08"]),
    ("sampler_coeff_slice_shift", ST, "        coeff = coeffs[:,(i*s+DM(range(s)).T)]", "        coeff = coeffs[:,(i*s+DM(range(s)).T)] if s!=5 else coeffs[:,(i*s+DM([0,1,2,3,3]).T)]", ["C08"]),
    # --- C12
    ("clone_shares_param_vals", ST, "        ret._param_vals = copy(self._param_vals)", "        ret._param_vals = self._param_vals", ["C12"]),
    ("clone_shares_constraint_lists", ST, "            ret._constraints[k] = list(zip(r, [merge_meta(m, get_meta()) for _, m, _ in v], [d for _, _, d in v]))", "            ret._constraints[k] = self._constraints[k]", ["C12"]),
    ("clone_ignores_t0_override", ST, "        if \"t0\" not in kwargs:\n            ret._t0 = copy(self._t0)", "        if True:\n            ret._t0 = copy(self._t0)", ["C12"]),
    ("substage_objective_dropped", SM, "        opti.add_objective(self.eval(stage, stage._objective))", "        opti.add_objective(self.eval(stage, stage._objective) if (stage is stage.master or len(stage.master._stages)<3) else 0)", ["C12"]),
    ("substage_T_from_master", SM, "        self.T = self.eval(stage, stage._T)\n        self.t0 = self.eval(stage, stage._t0)", "        self.T = self.eval(stage, stage._T)\n        self.t0 = self.eval(stage, stage._t0 if len(stage.master._stages)<2 else stage.master._stages[0]._t0)", ["C12"]),
    ("clone_initial_guess_lost", ST, "        ret._initial = HashOrderedDict(zip(res[n_constr+1:], self._initial.values()))", "        ret._initial = HashOrderedDict()", ["C12"]),
    # --- C16
    ("der_drops_partial_t", ST, "t=self.t)[\"ode\"], 1, *der_symbols))", "t=self.t)[\"ode\"], 0, *der_symbols))", ["C16"]),
    ("der_ode_at_wrong_time", ST, "return jtimes(expr, vertcat(self.x, self.t, *nominal_symbols), vertcat(ode(x=self.x, u=self.u, z=self.z, p=vertcat(self.p, self.v), t=self.t)[\"ode\"]", "return jtimes(expr, vertcat(self.x, self.t, *nominal_symbols), vertcat(ode(x=self.x, u=self.u, z=self.z, p=vertcat(self.p, self.v), t=0*self.t)[\"ode\"]", ["C16"]),
    ("control_chain_scaled", ST, "            self.set_der(u, helper_u)", "            self.set_der(u, 2*helper_u if order==2 else helper_u)", ["C16"]),
    ("signal_der_no_order_check", ST, "            if self.order==0:\n                raise Exception(\"Cannot differentiate \" + self.symbol.name() + \" any further.\")\n            der_symbol = MX.sym(\"der_\"+self.symbol.name(), self.symbol.sparsity())\n            self.derivative = AbstractSignal(self.order-1)", "            der_symbol = MX.sym(\"der_\"+self.symbol.name(), self.symbol.sparsity())\n            self.derivative = AbstractSignal(self.order-1)", ["C16"]),
    ("der_no_time_branch_wrong_gradient", ST, "                return jtimes(expr, self.x, ode(x=self.x, u=self.u, z=self.z, p=vertcat(self.p, self.v), t=self.t)[\"ode\"])", "                return jtimes(expr, self.x, ode(x=self.x, u=self.u, z=self.z, p=vertcat(self.p, self.v), t=self.t+1)[\"ode\"])", ["C16"]),
    # --- C17
    ("bspline_derivative_scale", "rockit/splines/micro_spline.py", "  scale = d/delta_xi", "  scale = (d-1)/delta_xi if d>1 else d/delta_xi", ["C17"]),
    ("greville_average_shift", "rockit/splines/micro_spline.py", "    return xi @ S", "    return xi @ S + (0.01 if d==3 else 0)", ["C17"]),
    ("basis_subgrid_interval", "rockit/splines/micro_spline.py", "    x = knots[ind+d]*(1-tau)+tau*knots[ind+d+1]", "    x = knots[ind+d]*(1-tau)+tau*knots[min(ind+d+2,knots.numel()-1)] if d==2 else knots[ind+d]*(1-tau)+tau*knots[ind+d+1]", ["C17"]),
    ("spline_chain_derivative_unscaled", "rockit/spline_method.py", "                    e = bspline_derivative(e,self.xi,d-i)/self.T", "                    e = bspline_derivative(e,self.xi,d-i)", ["C17"]),
    ("spline_constraints_skip_refined_points", "rockit/spline_method.py", "            _,results = self.grid_control(stage, canon, 'control', refine=refine)", "            _,results = self.grid_control(stage, canon, 'control', refine=min(refine,2))", ["C17"]),
    ("bspline_param_coeff_reversed", SM, "            opti.set_value(self.signals[p].coeff, stage._param_value(p))", "            opti.set_value(self.signals[p].coeff, DM(stage._param_value(p))[:,::-1])", ["C17"]),
    # --- C20
    ("missing_set_der_becomes_zero", ST, "            try:\n                der.append(self._state_der[k])\n            except:\n                raise Exception(\"ocp.set_der missing for state defined at \" + str(self._meta[k]))\n        ode = veccat(*der)", "            try:\n                der.append(self._state_der[k])\n            except:\n                der.append(MX.zeros(k.sparsity()))\n        ode = veccat(*der)", ["C20"]),
    ("missing_param_value_defaults_to_zero", ST, "            raise Exception(\"You forgot to declare a value (using ocp.set_value) of the following parameter: \" + str(self._meta[p]))", "            return DM.zeros(p.shape) if p.is_scalar() else DM.zeros(p.shape[0], 64)[:, :0]+0", ["C20"]),
    ("constant_false_constraint_dropped", DM, "                    raise Exception(\"You have a constraint that is never statisfied.\")", "                    return", ["C20"]),
    ("no_solver_defaults_to_ipopt", DM, "                    raise Exception(\"You forgot to declare a solver. Use e.g. ocp.solver('ipopt').\")", "                    self._solver = 'ipopt'; self._solver_options = {'ipopt.print_level':0,'print_time':False}", ["C20"]),
    ("set_initial_on_parameter_ignored", ST, "                raise Exception(\"You attempted to set the initial value of a parameter. Did you mean ocp.set_value()? Got \" + str(var))", "                return", ["C20"]),
    ("unknown_subject_to_grid_means_control", ST, "        if grid not in ['point', 'control', 'inf', 'integrator', 'integrator_roots']:\n            raise Exception(\"Invalid argument\")", "        if grid not in ['point', 'control', 'inf', 'integrator', 'integrator_roots']:\n            grid = 'control'", ["C20"]),
    ("signal_objective_accepted", ST, "        assert not self.is_signal(term), \"An objective cannot be a signal. You must use ocp.integral or ocp.at_t0/tf to remove the time-dependence\"", "        if self.is_signal(term): term = self.at_tf(term)", ["C20"]),
    ("explicit_scheme_ignores_algebraic", SM, "    def intg_rk(self, f, X, U, P, Z):\n        assert Z.is_empty()", "    def intg_rk(self, f, X, U, P, Z):\n        Z = MX(0,1)", ["C20"]),
    # --- C19
    ("dc_to_function_no_helper_init", DC, "        add_xc = depends_on(all_args, states) and not depends_on(all_args, self.Xc_vars)", "        add_xc = False", ["C19"]),
    ("dc_to_function_helper_init_from_first_node", DC, "                self.Xc_vars0.append(repmat(x, 1, self.degree if i==0 else self.degree+1))", "                self.Xc_vars0.append(repmat(self.X[0], 1, self.degree if i==0 else self.degree+1))", ["C19"]),
    ("to_function_results_at_initial", "rockit/direct_method.py", "        return self.opti.to_function(name, [stage.value(a) for a in args], results, *margs)", "        return self.opti.to_function(name, [stage.value(a) for a in args], [r if i!=1 else self.opti.value(r, self.opti.initial()) if False else r*1.0000001 for i,r in enumerate(results)], *margs)", ["C19"]),
    # --- C03
    ("sys_simulator_time_not_rescaled", "rockit/ocp.py", "        [ode,alg] = substitute([ode,alg],[self.t],[t0+tau*dt])", "        [ode,alg] = substitute([ode,alg],[self.t],[t0+tau])", ["C03"]),
    ("builtin_intg_time_not_rescaled", SM, "        res = f(x=X, u=U, p=P, t=t0+t*DT, z=Z)", "        res = f(x=X, u=U, p=P, t=t0+t, z=Z)", ["C03"]),
    ("rk_k4_uses_k2", SM, "        k4 = f(x=X + DT * k3[\"ode\"], u=U, p=P, t=t0+DT)", "        k4 = f(x=X + DT * k2[\"ode\"], u=U, p=P, t=t0+DT)", ["C03"]),
    ("dc_quadrature_dt_of_control_interval", DC, "                    self.q = self.q + res[\"quad\"]*dt*self.B[j]", "                    self.q = self.q + res[\"quad\"]*dt*self.B[j]*(1+0.01*(self.M>2))", ["C03"]),
]
