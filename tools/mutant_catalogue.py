"""One-line semantic mutations of rockit that compile and keep the baseline tests green (see DESIGN.md, sensitivity)."""
SM = "rockit/sampling_method.py"
MS = "rockit/multiple_shooting.py"
SS = "rockit/single_shooting.py"
DC = "rockit/direct_collocation.py"
ST = "rockit/stage.py"
DM = "rockit/direct_method.py"
MUTANTS = [
    ("rk_stage_time", SM, "k2 = f(x=X + DT / 2 * k1[\"ode\"], u=U, p=P, t=t0+DT/2)", "k2 = f(x=X + DT / 2 * k1[\"ode\"], u=U, p=P, t=t0)", ["C01"]),
    ("drop_t0_local_increment", SM, "            t0_local += DT\n", "            pass\n", ["C01"]),
    ("p_sys_prev_interval", SM, "                self.get_p_control_at(stage, k),\n                self.get_p_control_plus_at(stage, k),\n                self.V, self.get_v_control_at(stage, k),", "                self.get_p_control_at(stage, max(k-1,0)),\n                self.get_p_control_plus_at(stage, k),\n                self.V, self.get_v_control_at(stage, k),", ["C01"]),
    ("euler_quad_scale", SM, "[X + DT * k[\"ode\"], poly_coeff, DT * k[\"quad\"]", "[X + DT * k[\"ode\"], poly_coeff, DT_control * k[\"quad\"]", ["C01"]),
    ("dt_control_swap", SM, "intg_res = intg(x0=X[-1], u=U, t0=t0_local, DT=DT, DT_control=T, p=P, z0=Z0_current)", "intg_res = intg(x0=X[-1], u=U, t0=t0_local, DT=DT, DT_control=DT, p=P, z0=Z0_current)", ["C01"]),
    ("ms_gap_wrong_T", MS, "T=self.control_grid[k + 1] - self.control_grid[k], p=self.get_p_sys(stage, k), z0=self.Z0[k])", "T=self.control_grid[1] - self.control_grid[0], p=self.get_p_sys(stage, k), z0=self.Z0[k])", ["C01"]),
    ("ss_wrong_t0", SS, "FF = F(x0=self.X[k], u=self.U[k], t0=self.control_grid[k],", "FF = F(x0=self.X[k], u=self.U[k], t0=self.control_grid[0],", ["C01"]),
]
