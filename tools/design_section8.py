#!/venv/bin/python
"""Regenerate section 8 of DESIGN.md (seeded breakages) from seeded/last_run.json, seeded/<id>/meta.json and tools/seed_notes.json."""
import json, os
HERE = os.path.dirname(os.path.dirname(os.path.abspath(__file__)))
p = os.path.join(HERE, "DESIGN.md")
s = open(p).read()
i = s.index("## 8. Sensitivity: independently seeded breakages")
notes = json.load(open(os.path.join(HERE, "tools", "seed_notes.json")))
last = {r["id"]: r for r in json.load(open(os.path.join(HERE, "seeded", "last_run.json")))}
rows, missed, built, neigh, bydesign, outside, open_ = [], 0, 0, [], [], [], []
per_round = {}
for sid in sorted(last):
    r = last[sid]
    mp = os.path.join(HERE, "seeded", sid, "meta.json")
    if not os.path.exists(mp):
        continue
    meta = json.load(open(mp))
    own = sid[:3]
    rnd = {"": 1, "b": 2, "c": 3, "d": 4, "e": 5, "f": 6, "g": 7, "h": 8}[sid[3:]]
    per_round.setdefault(rnd, [0, 0])[1] += 1
    caught = "; ".join("%s: %s" % (q, ", ".join(c["subchecks"][:2])) for q, c in r["checks"].items() if c["violation"])
    n = notes.get(sid, {})
    if n.get("out_of_domain"):
        first = "outside the documented input domain the generators stay in: not caught, by construction"
        outside.append(sid)
    elif n.get("missed_first"):
        first = "missed → strengthened"
        missed += 1
        per_round[rnd][0] += 1
        if any(c["violation"] for q, c in r["checks"].items() if q != own):
            neigh.append(sid)
    elif n.get("open") and not any(c["violation"] for c in r["checks"].values()):
        first = "**missed and still open** — " + n.get("note", "")
        open_.append(sid)
        per_round[rnd][0] += 1
    elif not r["checks"].get(own, {}).get("violation"):
        first = "not visible to %s by construction; caught by the property that owns the clause" % own
        bydesign.append(sid)
    else:
        first = "caught as built"
        built += 1
    summ = str(meta["summary"]).replace("|", "/").replace("\n", " ")
    rows.append("| %s | %s | %s | %s |" % (sid, summ[:150] + ("…" if len(summ) > 150 else ""), caught or "**not caught**", first))
total = len(rows)
rounds = ", ".join("%d of %d" % tuple(per_round[k]) for k in sorted(per_round))
new = """## 8. Sensitivity: independently seeded breakages

%d changes (%d rounds, one per property and round) were written by fresh sub-agents that saw only the text of one
property and their own scratch worktree of /repo under /tmp — nothing from /verif. From the second round on each
agent was told which mechanisms were already taken (the summaries the earlier agents had written) and asked for a
different one. Each delivered `patch.diff`, a stand-alone `demo.py` (exit 0 on the unchanged code, non-zero with the
change, against a hand computation) and `meta.json`. `tools/seed_final.py` then confirmed every one of them against
the current /repo HEAD in a new scratch worktree (`git -C /repo worktree add --detach /tmp/sf/<id> HEAD`; demo clean
→ 0; `git apply`; demo → non-zero; the repository test-suite with junit output → all 41 baseline tests still pass;
the registered quick checks with `VERIF_REPO=/tmp/sf/<id>`; `git checkout`; `git worktree remove --force`). Nothing
was ever applied in /repo. Two patches (C11, C13) were written against an older HEAD and were ported by hand (same
edit). Failing cases of these runs go to a throw-away directory (`VERIF_NEW_REPLAY_DIR`), never into `replays/`.
`seeded/<id>/` holds patch, demo and meta (what it needs to manifest, what was run, which sub-checks fired);
`seeded/RESULTS.md` is the full table, `seeded/last_run.json` the raw results.

Outcome: OUTSIDE_TEXTOPEN_TEXT%d of %d are caught by the quick tier — %d by the property they were aimed at, %d (%s) only by the
property that owns the broken clause:

BYDESIGN_LIST
%d were caught by the checks as built; %d were missed by the first version of the aimed check and led to the
strengthenings listed in `seeded/RESULTS.md` (%d of those were caught from the start by a neighbouring check).
First misses per round (including the ones still open): %s. The share fell only slowly, which is the honest measure of what remains: another author
would still find dimensions the generators hold fixed (and in the later rounds more and more seeds broke a clause
that another property owns — those are listed above and are caught there). The misses fell into three classes:

1. a dimension of the input space that the generator held fixed — argument order, labels and argument shapes in
   C19, option spelling in C18, where coupling is declared in C12, `T` only outside placeholders in C05, `c − e`
   shapes in C15, values assigned only before transcription (C19, C18) or never followed by a re-transcription
   (C09), dynamics declared per state only (C01), ODEs only (C08, C16), path constraints on the control grid only
   (C13), a new options dictionary at every solver call (C13), finite bounds and unscaled constraints only (C14,
   C04), a parent with a variable but no parameter (C12), fault classes missing from the catalogue (C20);
2. a sound oracle whose interesting class was too rare for the quick budget (DAE + collocation roots + M>1 in C07
   and C10, per-node parameters inside shifted operands in C09);
   From the fourth round on the authors moved to call order: a declaration or value issued *after* a first transcription
   (C05 late term, C12 edit through a sub-stage, C13 options edited in place, C09/C13 set_value followed by set_initial,
   C18 guess for a free horizon dropped on save) — histories are C13's subject, and several of these were caught there
   first and only then added to the aimed check; the sixth round moved on to cloned stages (a clone losing its algebraic
   equations, its set_der scale, its inf_inert placeholder) — every property except C12 builds its stages directly, so these
   are C12's to catch, and its templates were enriched accordingly;
3. an observable the check did not look at — collocation root times in C06, raw variable identity at roots in
   C07, accessor membership after load in C18, the second derivative of a spline with T≠1 in C16/C17, the start
   of the local time grid in C11, which root a scaled algebraic guess leads to in C14, what the parent's own
   symbols resolve to in C12 (there the seed only made the variable dictionary incomplete, which the harness
   reports as *inconclusive*, exit 2, not as a violation).

| seed | change (abridged) | caught by (quick tier) | history |
|---|---|---|---|
""" % (total, len(per_round), total - len(outside) - len(open_), total, total - len(bydesign) - len(outside) - len(open_), len(bydesign), ", ".join(bydesign), built, missed, len(neigh), rounds) + "\n".join(rows) + "\n"
new = new.replace("OUTSIDE_TEXT", ("%s (%s) is not caught at all and is not meant to be: %s. " % (", ".join(outside), "1 seed" if len(outside) == 1 else "%d seeds" % len(outside), "; ".join(notes[k]["note"] for k in outside))) if outside else "")
new = new.replace("OPEN_TEXT", ("%d seeds of the last round (%s) are **not caught by any check** and were not closed in the time that remained; what each needs is in the table. " % (len(open_), ", ".join(open_))) if open_ else "")
new = new.replace("BYDESIGN_LIST\n", "".join("* %s — %s\n" % (k, notes.get(k, {}).get("note", "")) for k in bydesign) + "\n")
open(p, "w").write(s[:i] + new)
print(total, "seeds; missed first:", missed, "as built:", built, "by design elsewhere:", bydesign, "per round:", per_round)
