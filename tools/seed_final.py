#!/venv/bin/python
"""Confirm every seeded breakage against the CURRENT /repo HEAD in a scratch worktree and store it under /verif/seeded/<id>/.

usage: tools/seed_final.py [--jobs 5] [--src /tmp/seed | --from-seeded] [--only C04b,C07] [--skip-tests] [--no-store] [--seed N]

For each <src>/<id>/seed/{patch.diff|patch_ported.diff, demo.py, meta.json}:
  1. git -C /repo worktree add --detach /tmp/sf/<id> HEAD
  2. demo on the clean worktree (must exit 0), git apply, demo again (must exit non-zero)
  3. the repository's test-suite with the change applied (junit; every BASELINE stable_pass test must pass)
  4. the quick tier of the property's own check (and of the others named in tools/seed_notes.json) with VERIF_REPO=<worktree>;
     failing cases go to a throw-away directory, never into /verif/replays
  5. git checkout, git worktree remove
Nothing is ever applied or committed in /repo itself.
"""
import argparse, json, os, shutil, subprocess, sys, time, xml.etree.ElementTree as ET
from concurrent.futures import ThreadPoolExecutor

HERE = os.path.dirname(os.path.dirname(os.path.abspath(__file__)))
ap = argparse.ArgumentParser()
ap.add_argument("--jobs", type=int, default=5)
ap.add_argument("--src", default="/tmp/seed")
ap.add_argument("--only")
ap.add_argument("--skip-tests", action="store_true")
ap.add_argument("--from-seeded", action="store_true", help="take patch/demo/meta from /verif/seeded/<id>/ (the scratch worktrees the sub-agents used are gone)")
ap.add_argument("--seed", default="1")
ap.add_argument("--no-store", action="store_true", help="robustness probe: do not touch seeded/ (use with --skip-tests --seed N)")
a = ap.parse_args()
if a.from_seeded:
    a.src = "/tmp/sf_src"
    shutil.rmtree(a.src, ignore_errors=True)
    for sid_ in sorted(os.listdir(os.path.join(HERE, "seeded"))):
        d_ = os.path.join(HERE, "seeded", sid_)
        if os.path.isdir(d_) and os.path.exists(os.path.join(d_, "patch.diff")):
            os.makedirs(os.path.join(a.src, sid_, "seed"))
            for fn_ in ("patch.diff", "demo.py", "meta.json"):
                shutil.copy(os.path.join(d_, fn_), os.path.join(a.src, sid_, "seed", fn_))
NOTES = json.load(open(os.path.join(HERE, "tools", "seed_notes.json")))
WANT = set(json.load(open("/root/.vp/BASELINE.json"))["stable_pass"])
HEAD = subprocess.run("git -C /repo rev-parse --short HEAD", shell=True, capture_output=True, text=True).stdout.strip()


def sh(cmd, **kw):
    return subprocess.run(cmd, shell=True, capture_output=True, text=True, **kw)


def one(sid):
    src = os.path.join(a.src, sid, "seed")
    wt = "/tmp/sf/" + sid
    out = {"id": sid, "repo_head": HEAD}
    sh("git -C /repo worktree remove --force %s" % wt)
    r = sh("git -C /repo worktree add --detach %s HEAD" % wt)
    if r.returncode:
        out["error"] = r.stderr[-300:]
        return out
    try:
        patch = os.path.join(src, "patch_ported.diff") if os.path.exists(os.path.join(src, "patch_ported.diff")) else os.path.join(src, "patch.diff")
        out["ported"] = patch.endswith("patch_ported.diff")
        # .deps carries networkx (needed by rockit's SplineMethod, absent from /venv) next to hypothesis
        env = dict(os.environ, PYTHONPATH=wt + ":" + os.path.join(HERE, ".deps"))
        env.pop("ROCKIT_VERIF", None)
        demo = os.path.join(src, "demo.py")
        rc0 = subprocess.run(["/venv/bin/python", demo], cwd=wt, env=env, capture_output=True, text=True, timeout=3000)
        out["demo_clean_rc"] = rc0.returncode
        r = sh("git -C %s apply %s" % (wt, patch))
        if r.returncode:
            out["error"] = "patch does not apply: " + r.stderr[-300:]
            return out
        rc1 = subprocess.run(["/venv/bin/python", demo], cwd=wt, env=env, capture_output=True, text=True, timeout=3000)
        out["demo_patched_rc"] = rc1.returncode
        out["demo_patched_tail"] = (rc1.stdout + rc1.stderr)[-400:]
        if not a.skip_tests:
            xml = os.path.join(wt, "junit-seed.xml")
            subprocess.run(["/venv/bin/python", "-m", "pytest", "-q", "-p", "no:cacheprovider", "--timeout=900", "--continue-on-collection-errors", "--junitxml=" + xml],
                           cwd=wt, env=env, stdout=subprocess.DEVNULL, stderr=subprocess.DEVNULL)
            passed = set()
            for tc in ET.parse(xml).getroot().iter("testcase"):
                if not any(ch.tag in ("failure", "error", "skipped") for ch in tc):
                    passed.add("%s::%s" % (tc.get("classname"), tc.get("name")))
            out["tests"] = {"passed": len(passed), "stable_missing": sorted(WANT - passed)}
            sh("git -C %s checkout -- rockit && git -C %s clean -fdq . && git -C %s apply %s" % (wt, wt, wt, patch))
        out["checks"] = {}
        own = sid[:3]
        props = [own] + [p for p in NOTES.get(sid, {}).get("also", []) if p != own]
        for p in props:
            t = time.time()
            scratch = "/tmp/sf/replays-" + sid
            e2 = dict(os.environ, VERIF_REPO=wt, VERIF_SEED=a.seed, VERIF_NEW_REPLAY_DIR=scratch)
            r = subprocess.run([os.path.join(HERE, "check"), p, "--tier", "quick", "--no-evidence"], env=e2, capture_output=True, text=True, cwd=HERE)
            viol = [l for l in r.stdout.splitlines() if l.startswith("VIOLATION")]
            sub = sorted(set(l.split()[2] for l in r.stdout.splitlines() if l.strip().startswith("failed sub-check")))
            out["checks"][p] = {"tier": "quick", "seed": a.seed, "rc": r.returncode, "violation": bool(viol), "subchecks": sub, "wall_s": round(time.time() - t, 1),
                                "summary": r.stdout.strip().splitlines()[-1][:200] if r.stdout.strip() else ""}
            shutil.rmtree(scratch, ignore_errors=True)
    except Exception as ex:
        out["error"] = "%s: %s" % (type(ex).__name__, str(ex)[:300])
    finally:
        sh("git -C %s checkout -- rockit" % wt)
        sh("git -C /repo worktree remove --force %s" % wt)
        shutil.rmtree(wt, ignore_errors=True)
    # store
    confirmed = out.get("demo_clean_rc") == 0 and out.get("demo_patched_rc", 0) != 0 and (a.skip_tests or not out.get("tests", {"stable_missing": [1]})["stable_missing"])
    out["confirmed"] = bool(confirmed)
    if confirmed and not a.skip_tests:
        dst = os.path.join(HERE, "seeded", sid)
        os.makedirs(dst, exist_ok=True)
        shutil.copy(patch, os.path.join(dst, "patch.diff"))
        shutil.copy(demo, os.path.join(dst, "demo.py"))
        meta = json.load(open(os.path.join(src, "meta.json")))
        note = NOTES.get(sid, {})
        json.dump({
            "property_id": own, "breaks_property": own, "summary": meta.get("summary"), "needs": meta.get("needs"),
            "author": "independent sub-agent given only the property text and its own scratch worktree of /repo",
            "patch_relative_to": HEAD + (" (ported by hand from the older HEAD the sub-agent worked on; same edit)" if out["ported"] else ""),
            "confirmed": {
                "demo_exit_status_without_change": out["demo_clean_rc"], "demo_exit_status_with_change": out["demo_patched_rc"],
                "baseline_tests_with_change": out["tests"],
                "what_was_run": ["git -C /repo worktree add --detach /tmp/sf/%s HEAD" % sid, "PYTHONPATH=/tmp/sf/%s:/verif/.deps /venv/bin/python demo.py   (exit 0)" % sid,
                                 "git -C /tmp/sf/%s apply patch.diff" % sid, "PYTHONPATH=/tmp/sf/%s:/verif/.deps /venv/bin/python demo.py   (exit non-zero)" % sid,
                                 "cd /tmp/sf/%s && /venv/bin/python -m pytest -q -p no:cacheprovider --timeout=900 --continue-on-collection-errors --junitxml=...  (all BASELINE stable_pass tests pass)" % sid,
                                 "VERIF_REPO=/tmp/sf/%s VERIF_SEED=%s ./check <ID> --tier quick --no-evidence" % (sid, a.seed),
                                 "git -C /repo worktree remove --force /tmp/sf/%s" % sid]},
            "checks_run_against_it": out["checks"],
            "first_version_of_check_missed_it": note.get("missed_first", False),
            "strengthening": note.get("strengthened"),
        }, open(os.path.join(dst, "meta.json"), "w"), indent=1)
    return out


ids = sorted(d for d in os.listdir(a.src) if os.path.isdir(os.path.join(a.src, d, "seed")) and os.path.exists(os.path.join(a.src, d, "seed", "patch.diff")))
if a.only:
    ids = [i for i in ids if i in a.only.split(",")]
os.makedirs("/tmp/sf", exist_ok=True)
results = []
with ThreadPoolExecutor(a.jobs) as ex:
    for res in ex.map(one, ids):
        results.append(res)
        print(json.dumps({k: res.get(k) for k in ("id", "confirmed", "demo_clean_rc", "demo_patched_rc", "tests", "error")}), {p: (c["violation"], c["subchecks"][:3]) for p, c in res.get("checks", {}).items()}, flush=True)
sh("git -C /repo worktree prune")
if a.no_store:
    missed = [r["id"] for r in results if not any(c["violation"] for c in r.get("checks", {}).values())]
    own_missed = [r["id"] for r in results if not r.get("checks", {}).get(r["id"][:3], {}).get("violation")]
    print("seed", a.seed, "not caught by any listed check:", missed, "; not caught by the aimed check:", own_missed)
    sys.exit(0)
log = os.path.join(HERE, "seeded", "last_run.json")
os.makedirs(os.path.dirname(log), exist_ok=True)
prev = {r["id"]: r for r in json.load(open(log))} if os.path.exists(log) else {}
for r in results:
    prev[r["id"]] = r
json.dump([prev[k] for k in sorted(prev)], open(log, "w"), indent=1)
# table
rows = ["# Independently seeded breakages and what caught them", "",
        "Each change was written by a fresh sub-agent that saw only the text of one property and its own scratch worktree of /repo (nothing from /verif). "
        "`tools/seed_final.py` confirmed each against /repo HEAD %s in a scratch worktree: the demonstration exits 0 without and non-zero with the change, every test of the "
        "pinned baseline still passes with it, and the registered quick checks were pointed at the patched worktree (`VERIF_REPO`). None was ever applied in /repo." % HEAD, "",
        "| seed | breaks | what it needs to manifest | caught by (quick tier: sub-checks, wall) | first version of the check missed it? what was strengthened |", "|---|---|---|---|---|"]
for sid in sorted(prev):
    r = prev[sid]
    mp = os.path.join(HERE, "seeded", sid, "meta.json")
    if not r.get("confirmed") or not os.path.exists(mp):
        continue
    m = json.load(open(mp))
    c1 = "; ".join("%s (%s; %.0fs)" % (p, ", ".join(c["subchecks"][:3]), c["wall_s"]) for p, c in r["checks"].items() if c["violation"]) or "**not caught**"
    c0 = "; ".join(p for p, c in r["checks"].items() if not c["violation"])
    note = NOTES.get(sid, {})
    rows.append("| %s | %s | %s | %s%s | %s |" % (sid, m["property_id"], str(m["needs"]).replace("|", "/").replace("\n", " ")[:260], c1, (" — quiet: " + c0) if c0 else "",
                                               ("yes — " + note.get("strengthened", "")) if note.get("missed_first") else "no"))
open(os.path.join(HERE, "seeded", "RESULTS.md"), "w").write("\n".join(rows) + "\n")
print("stored:", [r["id"] for r in results if r.get("confirmed")], "unconfirmed:", [r["id"] for r in results if not r.get("confirmed")])
