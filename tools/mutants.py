#!/venv/bin/python
"""Sensitivity harness: apply one-line semantic mutations to a scratch copy of rockit and run the checks.

usage: tools/mutants.py [--only name,...] [--props C01,C04] [--tier quick]
Each mutant: (name, file, old, new, [properties expected to turn red]).
Scratch copies live under a temp dir outside /repo and /verif and are removed afterwards.
Nothing here is registered in MANIFEST.json; it is how the checks' sensitivity was established (DESIGN.md appendix).
"""
import argparse, json, os, shutil, subprocess, sys, tempfile, time
HERE = os.path.dirname(os.path.dirname(os.path.abspath(__file__)))
sys.path.insert(0, HERE)
from tools.mutant_catalogue import MUTANTS


def run(m, props, tier, seed):
    name, rel, old, new, expect = m
    tmp = tempfile.mkdtemp(prefix="verif_mut_")
    try:
        shutil.copytree("/repo/rockit", os.path.join(tmp, "rockit"), ignore=shutil.ignore_patterns("__pycache__"))
        path = os.path.join(tmp, rel)
        src = open(path).read()
        if src.count(old) != 1:
            return {"name": name, "error": "pattern occurs %d times" % src.count(old)}
        open(path, "w").write(src.replace(old, new))
        out = {"name": name, "results": {}}
        for p in (props or expect):
            before = set(os.listdir(os.path.join(HERE, "replays")))
            t = time.time()
            env = dict(os.environ, VERIF_REPO=tmp, VERIF_SEED=str(seed))
            r = subprocess.run([os.path.join(HERE, "check"), p, "--tier", tier, "--no-evidence", "--noshrink"], env=env, capture_output=True, text=True, cwd=HERE)
            viol = [l for l in r.stdout.splitlines() if l.startswith("VIOLATION")]
            sub = [l.strip() for l in r.stdout.splitlines() if l.strip().startswith("failed sub-check")]
            out["results"][p] = {"rc": r.returncode, "violation": bool(viol), "wall_s": round(time.time() - t, 1), "subchecks": sorted(set(s.split()[2] for s in sub))[:6]}
            # replays written by the mutated run are not regressions of the real tree: remove them
            for fn in set(os.listdir(os.path.join(HERE, "replays"))) - before:
                os.remove(os.path.join(HERE, "replays", fn))
            if r.returncode == 2:
                out["results"][p]["tail"] = r.stdout[-800:]
        return out
    finally:
        shutil.rmtree(tmp, ignore_errors=True)


if __name__ == "__main__":
    ap = argparse.ArgumentParser()
    ap.add_argument("--only")
    ap.add_argument("--props")
    ap.add_argument("--tier", default="quick")
    ap.add_argument("--seed", type=int, default=1)
    a = ap.parse_args()
    only = a.only.split(",") if a.only else None
    props = a.props.split(",") if a.props else None
    for m in MUTANTS:
        if only and m[0] not in only:
            continue
        if props and not only and not (set(props) & set(m[4])):
            continue
        print(json.dumps(run(m, props, a.tier, a.seed)), flush=True)
