#!/venv/bin/python
"""Regenerate MANIFEST.json from the props modules that exist (single source of truth: props/cNN.py)."""
import importlib, json, os, sys
HERE = os.path.dirname(os.path.dirname(os.path.abspath(__file__)))
sys.path.insert(0, HERE)
sys.path.insert(0, "/repo")
sys.path.insert(0, os.path.join(HERE, ".deps"))
ids = [json.loads(l)["id"] for l in open(os.path.join(HERE, "properties.jsonl"))]
checks, na = [], []
for pid in ids:
    path = os.path.join(HERE, "props", pid.lower() + ".py")
    if not os.path.exists(path):
        na.append({"property_id": pid, "reason": "check not built yet in this session (design in DESIGN.md section 4); not a statement that the technique cannot apply"})
        continue
    m = importlib.import_module("props." + pid.lower())
    checks.append({
        "property_id": pid,
        "quick_cmd": "./check %s --tier quick" % pid,
        "thorough_cmd": "./check %s --tier thorough" % pid,
        "evidence_file": "evidence/%s.json" % pid,
        "replay_cmd_template": "./check %s --replay {path}" % pid,
        "engine": "hypothesis-pbt",
        "level_claimed": {"category": m.LEVEL, "text": m.LEVEL_TEXT, "design_ref": "DESIGN.md section 4, %s" % pid},
        "level_note": m.LEVEL_NOTE,
        "technique": m.TECHNIQUE,
    })
man = {
    "version": 1,
    "setup_cmd": "./setup.sh",
    "hooks": {"guard": "ROCKIT_VERIF", "enable": "no source hooks are needed: checks import rockit from /repo's working tree (pure Python; import is the rebuild); ROCKIT_VERIF=1 is exported by ./check for future hooks",
              "baseline_off_cmd": "cd /repo && /venv/bin/python -m pytest -ra -q -p no:cacheprovider --timeout=900 --continue-on-collection-errors",
              "source_commits": [], "add_only": True},
    "engines": [{"name": "hypothesis-pbt", "path": "vlib/", "serves_properties": [c["property_id"] for c in checks],
                 "kind_free_text": "Hypothesis 6.168 generators of OCP specs interpreted twice (rockit builder vs numpy reference model), NLP rows compared as slack-signature multisets at random decision vectors; stateful machines for histories"}],
    "checks": checks,
    "not_applicable": na,
    "notes": "All checks run with /venv/bin/python against /repo's working tree; third-party helpers (hypothesis, networkx, jsonschema) are installed offline into /verif/.deps by setup.sh. Known genuine defects that were not repaired are listed in known_findings.json.",
}
json.dump(man, open(os.path.join(HERE, "MANIFEST.json"), "w"), indent=1)
import jsonschema
jsonschema.validate(man, json.load(open("/root/.vp/MANIFEST.schema.json")))
print("manifest ok: %d checks, %d not built" % (len(checks), len(na)))
