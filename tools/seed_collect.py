#!/venv/bin/python
"""Copy confirmed seeded breakages from their scratch worktrees into /verif/seeded/<id>/ and write seeded/RESULTS.md."""
import json, os, shutil, sys
HERE = os.path.dirname(os.path.dirname(os.path.abspath(__file__)))
rows = []
for sid in sorted(os.listdir("/tmp/seed")) if os.path.isdir("/tmp/seed") else []:
    d = os.path.join("/tmp/seed", sid, "seed")
    if not os.path.isdir(d) or not os.path.exists(os.path.join(d, "eval.json")):
        continue
    ev = json.load(open(os.path.join(d, "eval.json")))
    tests = json.load(open(os.path.join(d, "tests.json"))) if os.path.exists(os.path.join(d, "tests.json")) else None
    confirmed = ev.get("demo_clean_rc") == 0 and ev.get("demo_patched_rc", 0) != 0 and tests is not None and not tests["stable_missing"]
    if not confirmed:
        print("not confirmed yet:", sid, ev.get("demo_clean_rc"), ev.get("demo_patched_rc"), tests)
        continue
    dst = os.path.join(HERE, "seeded", sid)
    os.makedirs(dst, exist_ok=True)
    for fn in ("patch.diff", "demo.py"):
        shutil.copy(os.path.join(d, fn), os.path.join(dst, fn))
    meta = json.load(open(os.path.join(d, "meta.json")))
    # thorough-tier results, if a later evaluation was stored
    checks = dict(ev.get("checks", {}))
    extra = os.path.join(d, "eval_extra.json")
    if os.path.exists(extra):
        checks.update(json.load(open(extra)))
    meta_out = {
        "property_id": meta.get("property_id", sid[:3]),
        "breaks_property": meta.get("property_id", sid[:3]),
        "summary": meta.get("summary"),
        "needs": meta.get("needs"),
        "author": "independent sub-agent given only the property text and a scratch worktree",
        "confirmed_by_me": {
            "demo_exit_status_without_change": ev["demo_clean_rc"],
            "demo_exit_status_with_change": ev["demo_patched_rc"],
            "baseline_tests_with_change": {"passed": tests["passed"], "stable_tests_missing": tests["stable_missing"]},
            "how": ["git -C <scratch worktree> apply seed/patch.diff", "PYTHONPATH=<worktree> /venv/bin/python seed/demo.py", "PYTHONPATH=<worktree> /venv/bin/python -m pytest ... --junitxml (compared with BASELINE.stable_pass)",
                    "VERIF_REPO=<worktree> ./check <ID> --tier quick", "git -C <worktree> checkout -- rockit"],
        },
        "checks_run_against_it": checks,
    }
    json.dump(meta_out, open(os.path.join(dst, "meta.json"), "w"), indent=1)
    caught = [p for p, c in checks.items() if c.get("violation")]
    rows.append((sid, meta_out["summary"], meta_out["needs"], checks, caught))
with open(os.path.join(HERE, "seeded", "RESULTS.md"), "w") as f:
    f.write("# Independently seeded breakages and what caught them\n\n")
    f.write("Each change was written by a fresh sub-agent that saw only the property text and a scratch worktree, then confirmed here "
            "(demo passes without / fails with the change; the 41 stable baseline tests still pass with it). Checks were pointed at the patched scratch worktree with `VERIF_REPO`.\n\n")
    f.write("| seed | what it needs to manifest | caught by (tier: sub-checks) | not caught by |\n|---|---|---|---|\n")
    for sid, summ, needs, checks, caught in rows:
        c1 = "; ".join("%s (%s: %s, %.0fs)" % (p, c["tier"], ", ".join(c["subchecks"][:3]), c["wall_s"]) for p, c in checks.items() if c.get("violation"))
        c0 = "; ".join("%s (%s)" % (p, c["tier"]) for p, c in checks.items() if not c.get("violation"))
        f.write("| %s | %s | %s | %s |\n" % (sid, str(needs).replace("|", "/").replace("\n", " ")[:300], c1 or "-", c0 or "-"))
print("collected:", [r[0] for r in rows])
