import sys, importlib, traceback, json, os, time
sys.path.insert(0,'/verif')
from hypothesis import given, settings, seed, HealthCheck, Phase
prop = importlib.import_module('props.'+sys.argv[1])
from vlib.driver import Ctx
n = int(sys.argv[2]) if len(sys.argv)>2 else 20
sd = int(sys.argv[3]) if len(sys.argv)>3 else 1
ctx = Ctx()
cnt = {"n":0,"fail":0,"exc":0}
hist = {}
HK = set(os.environ.get("HK","").split(","))
QUIET = bool(os.environ.get("QUIET"))
t0=time.time()
@seed(sd)
@settings(max_examples=n, database=None, deadline=None, suppress_health_check=list(HealthCheck), phases=[Phase.generate])
@given(prop.strategy('quick'))
def t(case):
    cnt["n"]+=1
    try:
        f = prop.check(case, ctx)
    except Exception as e:
        cnt["exc"]+=1
        if os.environ.get("DUMP"):
            open(os.environ["DUMP"],"a").write(json.dumps({"case":case,"exc":str(e)[:200]})+"\n")
        print("EXC", type(e).__name__, str(e)[:300])
        tb = traceback.extract_tb(e.__traceback__)
        print("   at", [(os.path.basename(fr.filename), fr.lineno, fr.name) for fr in tb[-4:]])
        if cnt["exc"]<=1: print(json.dumps(case)[:1500])
        return
    if f:
        cnt["fail"]+=1
        for x in f:
            key = x.subcheck + "|" + ",".join("%s=%s"%(k,v) for k,v in sorted(x.features.items()) if k in HK)
            hist[key] = hist.get(key,0)+1
        if os.environ.get("DUMP"):
            open(os.environ["DUMP"],"a").write(json.dumps({"case":case,"fails":[x.to_json() for x in f]})+"\n")
        if QUIET: return
        print("FAIL", f[:3], [json.dumps(__import__('vlib.core',fromlist=['x'])._jsonable(x.detail))[:300] for x in f[:2]])
        if cnt["fail"]<=2: print(json.dumps(prop.abbreviate(case))[:1200])
t()
for k,v in sorted(hist.items()): print("  ",v,k)
print(cnt, ctx.counters, "%.1fs"%(time.time()-t0))
