#!/bin/bash
cd /verif
for s in "$@"; do for p in C01 C02 C03 C04 C05 C06 C07 C08 C09 C10 C11 C12 C13 C14 C15 C16 C17 C18 C19 C20; do
  out=$(VERIF_SEED=$s VERIF_NEW_REPLAY_DIR=replays_probe ./check $p --tier quick --no-evidence 2>&1); rc=$?
  if [ $rc -ne 0 ]; then echo "== $p seed $s rc=$rc"; echo "$out" | grep -v "^KNOWN" | tail -6 | cut -c1-400; fi
done; done; echo finished
