#!/venv/bin/python
"""Run the repository's pinned test suite (guard off) and compare the passing set with /root/.vp/BASELINE.json."""
import json, subprocess, sys, tempfile, os, xml.etree.ElementTree as ET
base = json.load(open("/root/.vp/BASELINE.json"))
xml = sys.argv[1] if len(sys.argv) > 1 else None
if xml is None:
    xml = tempfile.mktemp(suffix=".xml")
    env = dict(os.environ)
    env.pop("ROCKIT_VERIF", None)
    subprocess.run(["/venv/bin/python", "-m", "pytest", "-ra", "-q", "-p", "no:cacheprovider", "--timeout=900", "--continue-on-collection-errors", "--junitxml=" + xml], cwd="/repo", env=env, stdout=subprocess.DEVNULL, stderr=subprocess.DEVNULL)
passed = set()
for tc in ET.parse(xml).getroot().iter("testcase"):
    if not any(ch.tag in ("failure", "error", "skipped") for ch in tc):
        passed.add("%s::%s" % (tc.get("classname"), tc.get("name")))
want = set(base["stable_pass"])
print("passed %d; baseline %d; missing from baseline set: %s; newly passing: %s" % (len(passed), len(want), sorted(want - passed), sorted(passed - want)))
sys.exit(0 if want <= passed else 1)
