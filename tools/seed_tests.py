#!/venv/bin/python
"""Confirm that the repository's stable tests still pass with a seeded change applied (scratch worktree)."""
import json, os, subprocess, sys, xml.etree.ElementTree as ET
for sid in sys.argv[1:]:
    wt = "/tmp/seed/" + sid
    subprocess.run("git -C %s checkout -- rockit && git -C %s apply seed/patch.diff" % (wt, wt), shell=True, check=True)
    xml = os.path.join(wt, "seed", "junit.xml")
    try:
        subprocess.run(["/venv/bin/python", "-m", "pytest", "-q", "-p", "no:cacheprovider", "--timeout=900", "--continue-on-collection-errors", "--junitxml=" + xml], cwd=wt, env=dict(os.environ, PYTHONPATH=wt), stdout=subprocess.DEVNULL, stderr=subprocess.DEVNULL)
        passed = set()
        for tc in ET.parse(xml).getroot().iter("testcase"):
            if not any(ch.tag in ("failure", "error", "skipped") for ch in tc):
                passed.add("%s::%s" % (tc.get("classname"), tc.get("name")))
        want = set(json.load(open("/root/.vp/BASELINE.json"))["stable_pass"])
        res = {"id": sid, "passed": len(passed), "stable_missing": sorted(want - passed)}
    finally:
        subprocess.run("git -C %s checkout -- rockit && git -C %s clean -fdq -e seed ." % (wt, wt), shell=True)
    json.dump(res, open(os.path.join(wt, "seed", "tests.json"), "w"))
    print(json.dumps(res), flush=True)
