#!/venv/bin/python
"""Confirm an independently seeded breakage and run the checks against it.

usage: tools/seed_eval.py <ID> [--props C04,C13] [--tier quick] [--tests] [--wt /tmp/seed/<ID>]
The change lives in a scratch worktree (outside /repo and /verif); checks are pointed at it with VERIF_REPO.
"""
import argparse, json, os, subprocess, sys, time, xml.etree.ElementTree as ET
HERE = os.path.dirname(os.path.dirname(os.path.abspath(__file__)))
ap = argparse.ArgumentParser()
ap.add_argument("id")
ap.add_argument("--props")
ap.add_argument("--tier", default="quick")
ap.add_argument("--tests", action="store_true")
ap.add_argument("--wt")
ap.add_argument("--seed", default="1")
a = ap.parse_args()
wt = a.wt or "/tmp/seed/" + a.id
patch = os.path.join(wt, "seed", "patch.diff")
env = dict(os.environ, PYTHONPATH=wt + ":" + os.path.join(HERE, ".deps"))
out = {"id": a.id, "worktree": wt}

def sh(cmd, **kw):
    return subprocess.run(cmd, shell=True, capture_output=True, text=True, **kw)

sh("git -C %s checkout -- rockit" % wt)
r0 = sh("/venv/bin/python seed/demo.py", cwd=wt, env=env)
out["demo_clean_rc"] = r0.returncode
ap_ = sh("git -C %s apply seed/patch.diff" % wt)
if ap_.returncode != 0:
    out["apply_error"] = ap_.stderr[-400:]
    print(json.dumps(out, indent=1)); sys.exit(2)
try:
    r1 = sh("/venv/bin/python seed/demo.py", cwd=wt, env=env)
    out["demo_patched_rc"] = r1.returncode
    out["demo_patched_tail"] = (r1.stdout + r1.stderr)[-300:]
    props = a.props.split(",") if a.props else [a.id]
    out["checks"] = {}
    for p in props:
        t = time.time()
        before = set(os.listdir(os.path.join(HERE, "replays")))
        e2 = dict(os.environ, VERIF_REPO=wt, VERIF_SEED=a.seed)
        r = subprocess.run([os.path.join(HERE, "check"), p, "--tier", a.tier, "--no-evidence"] + (["--noshrink"] if a.tier == "thorough" else []), env=e2, capture_output=True, text=True, cwd=HERE)
        viol = [l for l in r.stdout.splitlines() if l.startswith("VIOLATION")]
        sub = sorted(set(l.split()[2] for l in r.stdout.splitlines() if l.strip().startswith("failed sub-check")))
        out["checks"][p] = {"tier": a.tier, "rc": r.returncode, "violation": bool(viol), "subchecks": sub, "wall_s": round(time.time() - t, 1), "summary": r.stdout.strip().splitlines()[-1][:200] if r.stdout.strip() else ""}
        keep = os.path.join(wt, "seed", "replays")
        os.makedirs(keep, exist_ok=True)
        for fn in set(os.listdir(os.path.join(HERE, "replays"))) - before:
            os.replace(os.path.join(HERE, "replays", fn), os.path.join(keep, fn))
    if a.tests:
        xml = os.path.join(wt, "seed", "junit.xml")
        e3 = dict(os.environ, PYTHONPATH=wt)
        subprocess.run(["/venv/bin/python", "-m", "pytest", "-q", "-p", "no:cacheprovider", "--timeout=900", "--continue-on-collection-errors", "--junitxml=" + xml], cwd=wt, env=e3, stdout=subprocess.DEVNULL, stderr=subprocess.DEVNULL)
        passed = set()
        for tc in ET.parse(xml).getroot().iter("testcase"):
            if not any(ch.tag in ("failure", "error", "skipped") for ch in tc):
                passed.add("%s::%s" % (tc.get("classname"), tc.get("name")))
        want = set(json.load(open("/root/.vp/BASELINE.json"))["stable_pass"])
        out["tests"] = {"passed": len(passed), "stable_missing": sorted(want - passed)}
finally:
    sh("git -C %s checkout -- rockit" % wt)
    sh("git -C %s clean -fdq -e seed ." % wt)
json.dump(out, open(os.path.join(wt, "seed", "eval.json"), "w"), indent=1)
print(json.dumps(out, indent=1))
