#!/bin/bash
# Offline setup: make sure third-party helpers are importable beside the repo's own
# packages without touching /venv (installed into /verif/.deps from the wheelhouse).
set -e
HERE="$(cd "$(dirname "$0")" && pwd)"
PY=/venv/bin/python
DEPS="$HERE/.deps"
need=""
for m in hypothesis networkx jsonschema; do
  if ! PYTHONPATH="$DEPS" $PY -c "import $m" >/dev/null 2>&1; then need="$need $m"; fi
done
if [ -n "$need" ]; then
  mkdir -p "$DEPS"
  PIP_NO_INDEX=1 /venv/bin/pip install --quiet --no-index --find-links /opt/veriftools/wheels --target "$DEPS" $need >/dev/null 2>&1 || \
  PIP_NO_INDEX=1 $PY -m pip install --quiet --no-index --find-links /opt/veriftools/wheels --target "$DEPS" $need
fi
PYTHONPATH="$DEPS" $PY -c "import hypothesis, networkx, jsonschema" 
echo "setup ok"
