"""Probes: symbolic read-back of physical quantities through rockit's public sample/value."""
import casadi as ca
import numpy as np


def is_signal_decl(d):
    k = d["kind"]
    if k in ("state", "qstate", "control", "alg"):
        return True
    return d.get("grid", "") in ("control", "control+", "bspline")


def stage_probes(B, sname, prefix=None, dc=False, intg=False):
    """dict label -> MX for one stage: node times, T, t0, every declared symbol on the control grid."""
    st = B.stages[sname]
    pre = (prefix if prefix is not None else sname) + "|"
    owner = getattr(B, "owner", {}).get(sname, sname)   # a clone carries its template's declarations
    P = {}
    tk, _ = st.sample(st.t, grid="control")
    P[pre + "tk"] = tk
    P[pre + "T"] = st.value(st.T)
    P[pre + "t0"] = st.value(st.t0)
    for name, d in B.decl.items():
        if d["stage"] != owner:
            continue
        sym = B.syms[name]
        if is_signal_decl(d):
            if d["kind"] == "alg" and not dc:
                continue
            P[pre + "sig:" + name] = st.sample(ca.vec(sym), grid="control")[1]
        else:
            P[pre + "glob:" + name] = st.value(ca.vec(sym))
    if intg and not dc:
        ti, _ = st.sample(st.t, grid="integrator")
        P[pre + "ti"] = ti
        for name, d in B.decl.items():
            if d["stage"] == owner and d["kind"] == "state":
                P[pre + "intg:" + name] = st.sample(ca.vec(B.syms[name]), grid="integrator")[1]
    if dc:
        ti, _ = st.sample(st.t, grid="integrator")
        tr, _ = st.sample(st.t, grid="integrator_roots")
        P[pre + "ti"] = ti
        P[pre + "tr"] = tr
        for name, d in B.decl.items():
            if d["stage"] != owner:
                continue
            sym = B.syms[name]
            if d["kind"] in ("state",):
                P[pre + "intg:" + name] = st.sample(ca.vec(sym), grid="integrator")[1]
                P[pre + "roots:" + name] = st.sample(ca.vec(sym), grid="integrator_roots")[1]
            if d["kind"] == "alg":
                P[pre + "roots:" + name] = st.sample(ca.vec(sym), grid="integrator_roots")[1]
    return P


def unpack(res, sname, prefix=None):
    """Turn evaluated probes (dict label->ndarray) into the reference's data layout."""
    pre = (prefix if prefix is not None else sname) + "|"
    d = {"sig": {}, "glob": {}, "intg": {}, "roots": {}}
    for k, v in res.items():
        if not isinstance(k, str) or not k.startswith(pre):
            continue
        key = k[len(pre):]
        if key == "tk":
            d["tk"] = np.asarray(v, dtype=float).reshape(-1)
        elif key in ("ti", "tr"):
            d[key] = np.asarray(v, dtype=float).reshape(-1)
        elif key in ("T", "t0"):
            d[key] = float(np.asarray(v).reshape(-1)[0])
        else:
            kind, name = key.split(":", 1)
            a = np.asarray(v, dtype=float)
            if kind == "glob":
                a = a.reshape(-1)
            d[kind][name] = a
    return d
