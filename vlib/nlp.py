"""Observation of the transcribed NLP and comparison of constraint sets."""
import numpy as np
import casadi as ca

RTOL = 1e-9
ATOL = 1e-10


def force_transcribe(ocp):
    """Any public query transcribes; jacobian() is the cheapest."""
    ocp.jacobian()
    return ocp._method.opti


def DMa(v):
    return np.array(ca.DM(v), dtype=float)


class NLP:
    """f, g, lbg, ubg, x0, p of the problem handed to the solver, plus arbitrary probes."""

    def __init__(self, ocp, extra=None):
        opti = force_transcribe(ocp)
        self.ocp = ocp
        self.opti = opti
        self.nx = opti.nx
        self.np_ = opti.np
        self.ng = opti.ng
        self.x = opti.x
        self.p = opti.p
        self.extra_names = []
        self._outs = [opti.f, opti.g, opti.lbg, opti.ubg]
        self._F = None
        if extra:
            for k, v in extra.items():
                self.add(k, v)
        self.p0 = DMa(opti.value(opti.p)).reshape(-1) if opti.np > 0 else np.zeros(0)
        self.x0 = DMa(opti.debug.value(opti.x, opti.initial())).reshape(-1) if opti.nx > 0 else np.zeros(0)

    def add(self, name, mx):
        self.extra_names.append(name)
        self._outs.append(ca.MX(mx))
        self._F = None

    def add_all(self, d):
        for k, v in d.items():
            self.add(k, v)

    @property
    def F(self):
        """(x, p, inactive) -> outputs.  Opti's x only holds variables that occur in f or g; symbols that a
        probe needs but the NLP does not (e.g. a control nothing depends on) become a third input."""
        if self._F is None:
            F0 = ca.Function("nlp0", [self.x, self.p], self._outs, {"allow_free": True})
            free = F0.free_mx() if F0.has_free() else []
            bad = [s for s in free if not s.name().startswith("opti")]
            if bad:
                raise RuntimeError("non-Opti free symbols in NLP probe: %s" % bad)
            self.inactive = ca.vvcat(free) if free else ca.MX(0, 1)
            self.n_inactive = self.inactive.numel()
            # inactive parameters keep the value the user set; inactive decision variables get an arbitrary number
            dflt = []
            for sfree in free:
                try:
                    v = DMa(self.opti.debug.value(sfree)).reshape(-1, order="F") if "_p_" in sfree.name() else np.full(sfree.numel(), 0.375)
                except Exception:
                    v = np.full(sfree.numel(), 0.375)
                dflt.append(v)
            self.inactive_default = np.concatenate(dflt) if dflt else np.zeros(0)
            self._F = ca.Function("nlp", [self.x, self.p, self.inactive], self._outs)
        return self._F


    def eval(self, x, p=None, inactive=None):
        p = self.p0 if p is None else p
        F = self.F
        if inactive is None:
            inactive = self.inactive_default
        res = F(x, p, inactive)
        out = {"f": float(res[0]), "g": DMa(res[1]).reshape(-1), "lbg": DMa(res[2]).reshape(-1), "ubg": DMa(res[3]).reshape(-1)}
        for n, r in zip(self.extra_names, res[4:]):
            out[n] = DMa(r)
        return out

    def jac_sparsity(self):
        return np.array(ca.DM(ca.jacobian(self.opti.g, self.opti.x).sparsity(), 1)) != 0


class Rows:
    """Canonicalisation-independent description of a constraint set evaluated at K points.

    Every row lbg<=g<=ubg becomes one or two slack functions s(x) that must be >=0 (kind 'i')
    or ==0 (kind 'e', sign-normalised).  A slack is represented by its K-vector of values.
    """

    def __init__(self):
        self.eq = []    # list of K-vectors
        self.ineq = []

    @staticmethod
    def _norm_sign(v):
        i = int(np.argmax(np.abs(v)))
        return v if v[i] >= 0 else -v

    @classmethod
    def from_evals(cls, evals):
        """evals: list (K entries) of dicts with g,lbg,ubg."""
        r = cls()
        G = np.array([e["g"] for e in evals])       # K x ng
        LB = np.array([e["lbg"] for e in evals])
        UB = np.array([e["ubg"] for e in evals])
        ng = G.shape[1] if G.ndim == 2 else 0
        for i in range(ng):
            lb, ub, g = LB[:, i], UB[:, i], G[:, i]
            if np.all(np.isfinite(lb)) and np.all(np.isfinite(ub)) and np.allclose(lb, ub, rtol=0, atol=0):
                r.eq.append(cls._norm_sign(g - lb))
            else:
                if np.all(np.isfinite(lb)):
                    r.ineq.append(g - lb)
                if np.all(np.isfinite(ub)):
                    r.ineq.append(ub - g)
        return r

    def add_eq(self, v):
        self.eq.append(self._norm_sign(np.asarray(v, dtype=float)))

    def add_ineq(self, v):
        self.ineq.append(np.asarray(v, dtype=float))

    def count(self):
        return len(self.eq) + len(self.ineq)


def close(a, b, rtol=RTOL, atol=ATOL):
    a = np.asarray(a, dtype=float)
    b = np.asarray(b, dtype=float)
    if a.shape != b.shape:
        return False
    if not (np.all(np.isfinite(a)) and np.all(np.isfinite(b))):
        return bool(np.all((a == b) | (np.isnan(a) & np.isnan(b))))
    return bool(np.all(np.abs(a - b) <= atol + rtol * np.maximum(np.abs(a), np.abs(b))))


def _match(listA, listB, rtol, atol, upto_scale=False):
    """Greedy multiset matching of K-vectors.  Returns (unmatched_in_A, unmatched_in_B) index lists."""
    usedB = [False] * len(listB)
    unA = []
    if upto_scale:
        def nrm(v):
            n = np.linalg.norm(v)
            # a slack that is zero up to round-off at every point has no direction: all such rows are equal
            return v / n if n > 1e-11 else np.zeros_like(v)
        LA = [nrm(v) for v in listA]
        LB = [nrm(v) for v in listB]
    else:
        LA, LB = listA, listB
    # cheap bucket on first coordinate
    keysB = np.array([v[0] for v in LB]) if LB else np.zeros(0)
    for ia, va in enumerate(LA):
        found = -1
        if len(LB):
            cand = np.nonzero(np.abs(keysB - va[0]) <= atol + rtol * np.maximum(np.abs(keysB), abs(va[0])))[0]
            for ib in cand:
                if not usedB[ib] and close(va, LB[ib], rtol, atol):
                    found = ib
                    break
        if found >= 0:
            usedB[found] = True
        else:
            unA.append(ia)
    unB = [i for i, u in enumerate(usedB) if not u]
    return unA, unB


def diff_rows(A, B, rtol=RTOL, atol=ATOL, upto_scale=False):
    """Multiset difference.  Returns dict with the slack vectors only in A / only in B."""
    ea, eb = _match(A.eq, B.eq, rtol, atol, upto_scale)
    if upto_scale:
        ia, ib = _match(A.ineq, B.ineq, rtol, atol, True)
    else:
        ia, ib = _match(A.ineq, B.ineq, rtol, atol)
    # equalities: sign normalisation can flip when the max entry is ~0; retry unmatched with flipped sign
    if ea and eb:
        A2 = [-A.eq[i] for i in ea]
        B2 = [B.eq[i] for i in eb]
        ua, ub = _match(A2, B2, rtol, atol, upto_scale)
        ea = [ea[i] for i in ua]
        eb = [eb[i] for i in ub]
    return {"eq_only_A": [A.eq[i] for i in ea], "eq_only_B": [B.eq[i] for i in eb],
            "ineq_only_A": [A.ineq[i] for i in ia], "ineq_only_B": [B.ineq[i] for i in ib]}


def rows_equal(A, B, **kw):
    d = diff_rows(A, B, **kw)
    return not any(d.values()), d


def subtract_rows(A, B, **kw):
    """A minus B as multisets; second return = rows of B that were not found in A."""
    d = diff_rows(A, B, **kw)
    R = Rows()
    R.eq = d["eq_only_A"]
    R.ineq = d["ineq_only_A"]
    M = Rows()
    M.eq = d["eq_only_B"]
    M.ineq = d["ineq_only_B"]
    return R, M


def summarize_diff(d, limit=3):
    out = {}
    for k, v in d.items():
        if v:
            out[k] = {"count": len(v), "first": [list(map(float, np.round(x, 10))) for x in v[:limit]]}
    return out


def random_points(nlp, rng, K, lo=-1.0, hi=1.0, time_like=None, tlo=0.4, thi=1.6):
    """K decision vectors; entries flagged time-like are kept positive (interval lengths, horizons)."""
    X = rng.uniform(lo, hi, size=(K, nlp.nx))
    if time_like is not None and len(time_like):
        X[:, time_like] = rng.uniform(tlo, thi, size=(K, len(time_like)))
    return X


def time_like_vars(nlp, exprs):
    """Indices of decision variables on which any of the (time) expressions depends."""
    if not exprs:
        return np.zeros(0, dtype=int)
    e = ca.veccat(*[ca.MX(v) for v in exprs])
    if e.numel() == 0:
        return np.zeros(0, dtype=int)
    J = ca.jacobian(e, nlp.x).sparsity()
    cols = np.array(ca.DM(J, 1)).sum(axis=0) if J.nnz() else np.zeros(nlp.nx)
    return np.nonzero(np.asarray(cols).reshape(-1))[0]


class Dictionary:
    """Bridge between decision-vector positions and named physical quantities.

    raw: ordered dict label -> MX (entries of sampled raw quantities).  Rows of the stacked
    Jacobian that are constant in x identify linear relations q = J x + c.  Transport between
    two NLPs sharing labels solves J_B x_B + c_B = q_A in the least-squares sense and checks
    that the system determines x_B uniquely.
    """

    def __init__(self, nlp, raw, rng=None):
        self.nlp = nlp
        self.labels = []
        exprs = []
        for lab, e in raw.items():
            e = ca.MX(e)
            for i in range(e.numel()):
                self.labels.append((lab, i))
            exprs.append(ca.vec(e))
        q = ca.vcat(exprs) if exprs else ca.MX(0, 1)
        self.q = q
        Jx = ca.jacobian(q, nlp.x)
        self.Q = ca.Function("Q", [nlp.x, nlp.p], [q, Jx])
        rng = rng or np.random.default_rng(0)
        xa = rng.uniform(0.3, 1.3, size=nlp.nx)
        xb = rng.uniform(0.3, 1.3, size=nlp.nx)
        qa, Ja = self.Q(xa, nlp.p0)
        qb, Jb = self.Q(xb, nlp.p0)
        Ja = np.array(ca.DM(Ja))
        Jb = np.array(ca.DM(Jb))
        self.linear = np.all(np.abs(Ja - Jb) <= 1e-12, axis=1) if Ja.size else np.zeros(0, dtype=bool)
        self.J = Ja
        self.c = DMa(qa).reshape(-1) - Ja @ xa
        self.index = {lab: i for i, lab in enumerate(self.labels)}

    def values(self, x, p=None):
        q, _ = self.Q(x, self.nlp.p0 if p is None else p)
        return DMa(q).reshape(-1)

    def covers(self):
        rows = self.J[self.linear]
        if rows.size == 0:
            return self.nlp.nx == 0
        return np.linalg.matrix_rank(rows) == self.nlp.nx

    def solve_for(self, targets):
        """targets: dict (label,i) -> value.  Least-squares x with those linear rows; returns x, residual."""
        idx = [self.index[k] for k in targets if k in self.index and self.linear[self.index[k]]]
        keys = [k for k in targets if k in self.index and self.linear[self.index[k]]]
        A = self.J[idx]
        b = np.array([targets[k] for k in keys]) - self.c[idx]
        x, res, rank, sv = np.linalg.lstsq(A, b, rcond=None)
        return x, (np.max(np.abs(A @ x - b)) if len(b) else 0.0), rank


def transport(dA, xA, dB):
    """Map a decision vector of NLP A to NLP B through shared labels."""
    qa = dA.values(xA)
    targets = {lab: qa[i] for lab, i in dA.index.items() if dA.linear[i]}
    xB, res, rank = dB.solve_for(targets)
    return xB, res, rank
