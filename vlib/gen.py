"""Hypothesis strategies producing JSON-serialisable specs (construction, not rejection)."""
from hypothesis import strategies as st

from . import expr as E

COEFS = [c / 4.0 for c in range(-8, 9) if c != 0]
SMALL = [c / 4.0 for c in range(-4, 5) if c != 0]


def coef():
    return st.sampled_from(COEFS)


def small():
    return st.sampled_from(SMALL)


def weighted(draw, items):
    """items: list of (value, weight)"""
    pool = []
    for v, w in items:
        pool.extend([v] * w)
    return draw(st.sampled_from(pool))


# ---------------------------------------------------------------------------------
# symbols
# ---------------------------------------------------------------------------------

SHAPES = [(1, 1), (1, 1), (1, 1), (2, 1), (2, 1), (3, 1), (1, 2), (2, 2)]


def leaves_of(decls):
    out = []
    for d in decls:
        for i in range(d["rows"] * d["cols"]):
            out.append(E.S(d["name"], i))
    return out


@st.composite
def symbol_table(draw, prefix="", max_states=2, max_controls=2, max_params=2, max_vars=2, grids=("", "control", "control+"),
                 quad=False, shapes=SHAPES, min_controls=0, alg=0, max_nx=4, matrix_interval_params=False):
    states = []
    nx = 0
    ns = draw(st.integers(1, max_states))
    for i in range(ns):
        r, c = draw(st.sampled_from(shapes))
        if nx + r * c > max_nx:
            r, c = 1, 1
        nx += r * c
        states.append({"name": "%sx%d" % (prefix, i), "rows": r, "cols": c})
    controls = []
    for i in range(draw(st.integers(min_controls, max_controls))):
        r, c = draw(st.sampled_from([(1, 1), (1, 1), (2, 1)]))
        controls.append({"name": "%su%d" % (prefix, i), "rows": r, "cols": c})
    params = []
    for i in range(draw(st.integers(0, max_params))):
        r, c = draw(st.sampled_from([(1, 1), (1, 1), (2, 1), (2, 2)]))
        g = draw(st.sampled_from(list(grids)))
        if c > 1 and not matrix_interval_params:
            g = ""   # matrix-valued per-interval parameters crash Stage.is_signal in the pinned tree (tracked under C09)
        params.append({"name": "%sp%d" % (prefix, i), "rows": r, "cols": c, "grid": g})
    vars_ = []
    for i in range(draw(st.integers(0, max_vars))):
        r, c = draw(st.sampled_from([(1, 1), (1, 1), (2, 1)]))
        g = draw(st.sampled_from(list(grids)))
        vars_.append({"name": "%sv%d" % (prefix, i), "rows": r, "cols": c, "grid": g})
    algs = [{"name": "%sz%d" % (prefix, i), "rows": 1, "cols": 1} for i in range(alg)]
    qstates = []
    if quad and draw(st.booleans()):
        qstates.append({"name": "%sq0" % prefix, "rows": 1, "cols": 1, "quad": True})
    return {"states": states + qstates, "controls": controls, "params": params, "vars": vars_, "algebraics": algs}


def fill_param_values(draw, sp, N):
    for d in sp.get("params", []):
        g = d.get("grid", "")
        ncol = d["cols"] * (1 if g == "" else (N if g == "control" else N + 1))
        d["value"] = [[draw(small()) for _ in range(ncol)] for _ in range(d["rows"])]


# ---------------------------------------------------------------------------------
# expressions
# ---------------------------------------------------------------------------------

@st.composite
def bounded_term(draw, leaves, allow_t=True, extra_leaves=()):
    """A smooth O(1) scalar term: coefficient times a bounded function of up to two leaves (and t)."""
    kind = weighted(draw, [("lin", 3), ("sinprod", 2), ("tanh", 2), ("tmix", 3 if allow_t else 0), ("sq", 1), ("tlin", 1 if allow_t else 0)])
    pool = list(leaves) + list(extra_leaves)
    a = draw(st.sampled_from(pool))
    c = draw(coef())
    if kind == "lin":
        return ["*", E.C(c), a]
    if kind == "sinprod":
        b = draw(st.sampled_from(pool))
        return ["*", E.C(c), ["sin", ["*", a, b]]]
    if kind == "tanh":
        return ["*", E.C(c), ["tanh", ["+", a, E.C(draw(small()))]]]
    if kind == "tmix":
        return ["*", E.C(c), ["sin", ["+", ["*", E.C(draw(small())), ["t"]], a]]]
    if kind == "tlin":
        return ["*", E.C(draw(small())), ["*", ["t"], ["tanh", a]]]
    if kind == "sq":
        return ["*", E.C(draw(small())), ["sq", ["tanh", a]]]
    raise AssertionError


@st.composite
def bounded_expr(draw, leaves, nterms=(1, 3), allow_t=True, extra_leaves=(), must_include=None):
    n = draw(st.integers(*nterms))
    terms = [draw(bounded_term(leaves, allow_t=allow_t, extra_leaves=extra_leaves)) for _ in range(n)]
    if must_include is not None:
        terms.append(["*", E.C(draw(coef())), must_include])
    e = terms[0]
    for t in terms[1:]:
        e = ["+", e, t]
    return e


@st.composite
def free_expr(draw, leaves, depth=2, allow_t=True, time_leaves=True):
    """General small tree (used for sampled expressions, constraints, objectives)."""
    pool = list(leaves)
    if allow_t:
        pool = pool + [["t"]]
    if depth <= 0 or draw(st.integers(0, 3)) == 0:
        if draw(st.integers(0, 4)) == 0:
            return E.C(draw(coef()))
        return draw(st.sampled_from(pool))
    op = weighted(draw, [("+", 3), ("-", 2), ("*", 3), ("sin", 1), ("cos", 1), ("tanh", 1), ("sq", 1), ("neg", 1)])
    a = draw(free_expr(leaves, depth - 1, allow_t))
    if op in ("+", "-", "*"):
        b = draw(free_expr(leaves, depth - 1, allow_t))
        return [op, a, b]
    return [op, a]


def dynamics(draw, tab, allow_t=True, t_prob=7, discrete=False):
    """Right-hand sides for every (quad) state; returns list for spec['der'] (or 'next')."""
    lv = leaves_of([d for d in tab["states"] if not d.get("quad")])
    ext = leaves_of(tab["controls"]) + leaves_of(tab["params"]) + leaves_of(tab["vars"]) + leaves_of(tab.get("algebraics", []))
    out = []
    for d in tab["states"]:
        exprs = []
        for i in range(d["rows"] * d["cols"]):
            use_t = allow_t and draw(st.integers(0, 9)) < t_prob
            e = draw(bounded_expr(lv, nterms=(1, 2), allow_t=use_t, extra_leaves=ext))
            if ext and draw(st.booleans()):
                e = ["+", e, ["*", E.C(draw(coef())), draw(st.sampled_from(ext))]]
            if use_t and not E.has_op(e, "t"):
                e = ["+", e, ["*", E.C(draw(small())), ["sin", ["t"]]]]
            if discrete:
                dtleaf = draw(st.sampled_from([["DT"], ["DTc"], ["DT"], ["*", ["DT"], ["DTc"]]]))
                e = ["+", E.S(d["name"], i), ["*", dtleaf, e]] if not d.get("quad") else ["*", dtleaf, e]
            exprs.append(e)
        out.append([d["name"], exprs])
    return out


# ---------------------------------------------------------------------------------
# horizon, grids, methods
# ---------------------------------------------------------------------------------

@st.composite
def horizon(draw, kinds=("num", "free", "par"), which="T"):
    kind = draw(st.sampled_from(list(kinds)))
    if which == "T":
        v = draw(st.sampled_from([1.0, 0.5, 2.0, 1.5, 0.75]))
    else:
        v = draw(st.sampled_from([0.0, 0.5, -1.0, 2.0, 1.25]))
    if kind == "num":
        return ["num", v]
    if kind == "free":
        return ["free", v]
    return ["par", "hp_" + which, v]


def install_horizon_params(sp):
    """A horizon given by a parameter needs that parameter declared (value = the number)."""
    for key in ("T", "t0"):
        h = sp.get(key)
        if h is not None and h[0] == "par":
            if not any(d["name"] == h[1] for d in sp["params"]):
                sp["params"].append({"name": h[1], "rows": 1, "cols": 1, "grid": "", "value": [[h[2]]]})
            sp[key] = ["par", h[1]]


@st.composite
def grid(draw, classes=("uniform", "geometric", "function", "free", "density"), localize=True, bounds=False, all_localize=False):
    cls = draw(st.sampled_from(list(classes)))
    g = {"cls": cls}
    if cls == "geometric":
        g["growth"] = draw(st.sampled_from([1.0, 1.5, 2.0, 4.0]))
        g["local"] = draw(st.booleans())
    if cls == "function":
        g["rule"] = "power"
        g["power"] = draw(st.sampled_from([2.0, 0.5, 1.5]))
        g["points"] = None
    if cls == "density":
        g["a"] = draw(st.sampled_from([1.0, 0.5, 2.0]))
        g["b"] = draw(st.sampled_from([1.0, 3.0, -0.25, 0.5]))
    if localize and cls != "free":
        g["localize_t0"] = draw(st.sampled_from([False, False, True]))
        # localize_T on Function/Density grids crashes in the pinned tree (tracked under C06 only)
        g["localize_T"] = draw(st.sampled_from([False, False, True])) if (cls in ("uniform", "geometric") or all_localize) else False
    elif localize and cls == "free":
        g["localize_t0"] = draw(st.sampled_from([False, False, True]))
    return g


@st.composite
def shooting_method(draw, maxN=5, maxM=4, classes=("MS", "SS"), schemes=("rk", "expl_euler"), grid_kw=None):
    N = weighted(draw, [(1, 3), (2, 3), (3, 3), (4, 2), (5, 1)][:maxN])
    M = weighted(draw, [(1, 3), (2, 3), (3, 2), (4, 1)][:maxM])
    return {"cls": draw(st.sampled_from(list(classes))), "N": N, "M": M, "intg": draw(st.sampled_from(list(schemes))),
            "grid": draw(grid(**(grid_kw or {})))}


@st.composite
def collocation_method(draw, maxN=4, maxM=3, degrees=(1, 2, 3, 4, 5), grid_kw=None):
    N = weighted(draw, [(1, 3), (2, 3), (3, 2), (4, 1)][:maxN])
    M = weighted(draw, [(1, 3), (2, 3), (3, 1)][:maxM])
    return {"cls": "DC", "N": N, "M": M, "degree": draw(st.sampled_from(list(degrees))), "scheme": draw(st.sampled_from(["radau", "legendre"])),
            "grid": draw(grid(**(grid_kw or {})))}


def grid_nontrivial(g):
    if g is None:
        return False
    return g.get("cls", "uniform") != "uniform" or g.get("localize_t0") or g.get("localize_T")


# ---------------------------------------------------------------------------------
# a complete single-stage OCP usable with every sampling method
# ---------------------------------------------------------------------------------

@st.composite
def base_ocp(draw, methods=("MS", "SS", "DC"), allow_alg=True, quad=False, grid_kw=None, horizons=("num", "free", "par"),
             maxN=4, maxM=3, schemes=("rk", "expl_euler"), degrees=(1, 2, 3, 4, 5), table_kw=None, discrete_prob=0, alg_odds=(1, 3)):
    mcls = draw(st.sampled_from(list(methods)))
    alg = 1 if (mcls == "DC" and allow_alg and draw(st.integers(1, alg_odds[1])) <= alg_odds[0]) else 0
    tab = draw(symbol_table(alg=alg, quad=quad, **(table_kw or {})))
    sp = {"name": "main"}
    sp.update(tab)
    sp["t0"] = draw(horizon(kinds=horizons, which="t0"))
    sp["T"] = draw(horizon(kinds=horizons, which="T"))
    install_horizon_params(sp)
    if mcls == "DC":
        m = draw(collocation_method(maxN=maxN, maxM=maxM, degrees=degrees, grid_kw=grid_kw))
    else:
        m = draw(shooting_method(maxN=maxN, maxM=maxM, classes=(mcls,), schemes=schemes, grid_kw=grid_kw))
    discrete = mcls != "DC" and discrete_prob and draw(st.integers(0, 9)) < discrete_prob
    if discrete:
        sp["next"] = dynamics(draw, tab, discrete=True)
    else:
        sp["der"] = dynamics(draw, tab)
    if alg:
        lv = leaves_of([d for d in tab["states"] if not d.get("quad")])
        z = E.S(tab["algebraics"][0]["name"], 0)
        h = draw(bounded_expr(lv, nterms=(1, 2)))
        sp["alg"] = [[["-", ["+", z, ["*", E.C(0.25), ["tanh", z]]], h]]]
    sp["method"] = m
    fill_param_values(draw, sp, m["N"])
    # dynamics declared per state, or once on a concatenation of all states (the builder ignores this with set_der scales)
    sp["dyn_concat"] = draw(st.integers(0, 3)) == 0
    sp["dyn_reversed"] = draw(st.integers(0, 2)) == 0
    return sp


def activation_objective(sp):
    """Objective terms touching every decision variable so that Opti keeps all of them in the NLP
    (Opti drops variables that occur nowhere), making decision vectors comparable between variants."""
    terms = []
    lv = leaves_of([d for d in sp["states"] if not d.get("quad")]) + leaves_of(sp["controls"]) + leaves_of(sp["vars"])
    acc = None
    for l in lv:
        t = ["sq", l]
        acc = t if acc is None else ["+", acc, t]
    for l in leaves_of(sp["params"]):   # parameters too: Opti's p only holds parameters that occur in the problem
        acc = l if acc is None else ["+", acc, l]
    if acc is not None:
        terms.append(["sump", acc])
    terms.append(["+", ["sq", ["at_t0", ["t"]]], ["sq", ["at_tf", ["t"]]]])
    return terms


def signal_leaves(sp, with_alg=False, with_params=True):
    lv = leaves_of([d for d in sp["states"] if not d.get("quad")]) + leaves_of(sp["controls"]) + leaves_of(sp["vars"])
    if with_params:
        lv += leaves_of(sp["params"])
    if with_alg:
        lv += leaves_of(sp.get("algebraics", []))
    return lv
