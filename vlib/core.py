"""Shared small types (kept out of driver.py so `python -m vlib.driver` and importers see one class)."""


class Fail:
    def __init__(self, subcheck, features=None, detail=None):
        self.subcheck = subcheck
        self.features = features or {}
        self.detail = detail

    def to_json(self):
        return {"subcheck": self.subcheck, "features": self.features, "detail": _jsonable(self.detail)}

    def __repr__(self):
        return "Fail(%s, %s)" % (self.subcheck, self.features)


class Violation(Exception):
    pass


class HarnessInconclusive(Exception):
    """Raised by a check when its own machinery cannot decide a case (never a violation)."""


def _jsonable(o):
    import numpy as np
    if isinstance(o, dict):
        return {str(k): _jsonable(v) for k, v in o.items()}
    if isinstance(o, (list, tuple)):
        return [_jsonable(v) for v in o]
    if isinstance(o, np.ndarray):
        return _jsonable(o.tolist())
    if isinstance(o, (np.floating,)):
        return float(o)
    if isinstance(o, (np.integer,)):
        return int(o)
    if isinstance(o, (np.bool_,)):
        return bool(o)
    if isinstance(o, float):
        if o != o or o in (float("inf"), float("-inf")):
            return str(o)
        return o
    if isinstance(o, (int, str, bool)) or o is None:
        return o
    return str(o)


