"""Scalar expression trees (JSON lists) with two independent interpreters.

  ["c", v]                 constant
  ["sym", name, i]         element i (column-major flat index) of declared symbol `name`
  ["t"] ["T"] ["t0"] ["tf"] ["DT"] ["DTc"]
  ["neg"|"sq"|"sin"|"cos"|"tanh", a]
  ["+"|"-"|"*", a, b]
  ["off", e, k]            e shifted by k control intervals (stage.offset/next/prev)
  ["at_t0"|"at_tf"|"int"|"intc"|"sum"|"sump", e, (stage)]   stage-level placeholders
  ["der", e]               stage.der(e) (C16)
  ["infder", e] ["inert", e]   inf_der / inf_inert (C15)

`to_ca` builds the CasADi expression through rockit's public API only.
`ev` is the numpy reference interpreter; it never touches CasADi or rockit.
"""
import math
import numpy as np

UNARY = ("neg", "sq", "sin", "cos", "tanh")
BINARY = ("+", "-", "*")
PLACEHOLDERS = ("at_t0", "at_tf", "int", "intc", "sum", "sump")


def C(v):
    return ["c", float(v)]


def S(name, i=0):
    return ["sym", name, int(i)]


def walk(e):
    """Yield all nodes of the tree (pre-order)."""
    yield e
    op = e[0]
    if op in UNARY or op in ("off", "der", "infder", "inert") or op in PLACEHOLDERS:
        yield from walk(e[1])
    elif op in BINARY:
        yield from walk(e[1])
        yield from walk(e[2])


def ops_in(e):
    return {n[0] for n in walk(e)}


def syms_in(e):
    return {n[1] for n in walk(e) if n[0] == "sym"}


def has_op(e, *ops):
    s = ops_in(e)
    return any(o in s for o in ops)


def size(e):
    return sum(1 for _ in walk(e))


# ----------------------------------------------------------------------------------
# CasADi side (system under test's input language)
# ----------------------------------------------------------------------------------

def to_ca(e, B, stage=None):
    """B: build context with .syms (name -> MX) and .stage_of(name) / .stage (Stage)."""
    import casadi as ca
    st = stage if stage is not None else B.stage
    op = e[0]
    if op == "c":
        return ca.MX(e[1])
    if op == "sym":
        s = B.syms[e[1]]
        return s if s.numel() == 1 else s[e[2]]
    if op == "t":
        return st.t
    if op in ("T", "t0", "tf"):
        tgt = B.stages[e[1]] if len(e) > 1 and e[1] is not None else st   # optional stage qualifier
        return {"T": tgt.T, "t0": tgt.t0, "tf": tgt.tf}[op]
    if op == "DT":
        return st.DT
    if op == "DTc":
        return st.DT_control
    if op == "neg":
        return -to_ca(e[1], B, st)
    if op == "sq":
        a = to_ca(e[1], B, st)
        return a * a
    if op == "sin":
        return ca.sin(to_ca(e[1], B, st))
    if op == "cos":
        return ca.cos(to_ca(e[1], B, st))
    if op == "tanh":
        return ca.tanh(to_ca(e[1], B, st))
    if op == "+":
        return to_ca(e[1], B, st) + to_ca(e[2], B, st)
    if op == "-":
        return to_ca(e[1], B, st) - to_ca(e[2], B, st)
    if op == "*":
        return to_ca(e[1], B, st) * to_ca(e[2], B, st)
    if op == "off":
        k = int(e[2])
        inner = to_ca(e[1], B, st)
        if k == 1 and e[-1] == "next":
            return st.next(inner)
        if k == -1 and e[-1] == "prev":
            return st.prev(inner)
        return st.offset(inner, k)
    if op in PLACEHOLDERS:
        tgt = B.stages[e[2]] if len(e) > 2 and e[2] is not None else st
        inner = to_ca(e[1], B, tgt)
        if op == "at_t0":
            return tgt.at_t0(inner)
        if op == "at_tf":
            return tgt.at_tf(inner)
        if op == "int":
            return tgt.integral(inner)
        if op == "intc":
            return tgt.integral(inner, grid='control')
        if op == "sum":
            return tgt.sum(inner)
        if op == "sump":
            return tgt.sum(inner, include_last=True)
    if op == "der":
        return st.der(to_ca(e[1], B, st))
    if op == "infder":
        return st.inf_der(to_ca(e[1], B, st))
    if op == "inert":
        return st.inf_inert(to_ca(e[1], B, st))
    raise ValueError("unknown op %r" % (op,))


# ----------------------------------------------------------------------------------
# Reference side
# ----------------------------------------------------------------------------------

class Env:
    """Values of every ingredient at one point in time.

    vals: name -> flat numpy array (column-major);  scalars t,T,t0,DT,DTc.
    ctx/k: optional trajectory context for 'off' operands.
    """
    __slots__ = ("vals", "t", "T", "t0", "DT", "DTc", "ctx", "k")

    def __init__(self, vals, t=math.nan, T=math.nan, t0=math.nan, DT=math.nan, DTc=math.nan, ctx=None, k=None):
        self.vals = vals
        self.t = t
        self.T = T
        self.t0 = t0
        self.DT = DT
        self.DTc = DTc
        self.ctx = ctx
        self.k = k


class OutOfHorizon(Exception):
    pass


def ev(e, env):
    op = e[0]
    if op == "c":
        return e[1]
    if op == "sym":
        return float(env.vals[e[1]][e[2]])
    if op == "t":
        return env.t
    if op == "T":
        return env.T
    if op == "t0":
        return env.t0
    if op == "tf":
        return env.t0 + env.T
    if op == "DT":
        return env.DT
    if op == "DTc":
        return env.DTc
    if op == "neg":
        return -ev(e[1], env)
    if op == "sq":
        a = ev(e[1], env)
        return a * a
    if op == "sin":
        return math.sin(ev(e[1], env))
    if op == "cos":
        return math.cos(ev(e[1], env))
    if op == "tanh":
        return math.tanh(ev(e[1], env))
    if op == "+":
        return ev(e[1], env) + ev(e[2], env)
    if op == "-":
        return ev(e[1], env) - ev(e[2], env)
    if op == "*":
        return ev(e[1], env) * ev(e[2], env)
    if op == "off":
        # value of the operand at control node k+offset (C04)
        return ev(e[1], env.ctx.node_env(env.k + int(e[2])))
    if op == "inert":
        return ev(e[1], env)
    raise ValueError("reference cannot evaluate op %r here" % (op,))


# ----------------------------------------------------------------------------------
# Structure probe: does an expression, as CasADi simplifies it, still depend on each shifted operand?
# ----------------------------------------------------------------------------------

def lost_offsets(exprs, signals_too=False, live_ops=None, not_decision=()):
    """exprs: list of trees that together form one relation (e.g. [lhs_i, rhs_i]).  Every leaf and every
    off(...) / integral-like placeholder node becomes a fresh MX symbol (at_t0 / at_tf are linear evaluations: their
    inner expression is expanded with symbols of its own, so that -2*at_t0(x) + at_t0(x + x) is seen to cancel); returns
    the off-nodes the simplified difference no longer depends on (generator-made cancellations such as (x - x)*prev(y))."""
    import casadi as ca
    import json
    atoms = {}

    def atom(node, tag):
        k = json.dumps(node if tag is None else [tag, node])
        if k not in atoms:
            atoms[k] = ca.MX.sym("a%d" % len(atoms))
        return atoms[k]

    def rec(e, tag=None):
        op = e[0]
        if op == "c":
            return ca.MX(e[1])
        if op == "neg":
            return -rec(e[1], tag)
        if op == "sq":
            a = rec(e[1], tag)
            return a * a
        if op in ("sin", "cos", "tanh"):
            return getattr(ca, op)(rec(e[1], tag))
        if op == "+":
            return rec(e[1], tag) + rec(e[2], tag)
        if op == "-":
            return rec(e[1], tag) - rec(e[2], tag)
        if op == "*":
            return rec(e[1], tag) * rec(e[2], tag)
        if op in ("at_t0", "at_tf") and tag is None:
            return rec(e[1], op + ":" + str(e[2] if len(e) > 2 else ""))
        return atom(e, tag)      # symbols, t, T, ..., shifted operands, other placeholders: atomic
    total = ca.MX(0)
    for i, e in enumerate(exprs):
        total = total + (i + 1.5) * rec(e)
    if not atoms:
        return [["collapsed"]] if signals_too else []
    # numeric dependence (two random points): MX does not simplify -2*x + 2*x, Opti's linear canonicalisation does
    import numpy as np
    keys = list(atoms)
    av = ca.vertcat(*[atoms[k] for k in keys])
    J = ca.Function("J", [av], [ca.jacobian(total, av)])
    rng = np.random.default_rng(12345)
    mag = np.zeros(len(keys))
    for _ in range(2):
        mag = np.maximum(mag, np.abs(np.array(J(rng.uniform(-1.3, 1.7, len(keys)))).reshape(-1)))
    dead = {k for k, m_ in zip(keys, mag) if m_ < 1e-12}
    def node_of(k):
        v = json.loads(k)
        return v[1] if (isinstance(v[0], str) and ":" in v[0] and isinstance(v[1], list)) else v
    lost = [node_of(k) for k in keys if node_of(k)[0] == "off" and k in dead]
    if signals_too:
        # the whole relation must still depend on some declared symbol (it may not collapse to a constant)
        def decision(node):      # an atom counts if it is, or contains, a symbol that is not a parameter
            names = syms_in(node)
            return bool(names - set(not_decision)) or not names
        live = [k for k in keys if node_of(k)[0] in (live_ops or (("sym", "off") + tuple(PLACEHOLDERS))) and k not in dead and decision(node_of(k))]
        if not live:
            lost.append(["collapsed"])
    return lost
