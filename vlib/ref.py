"""Reference model: a deliberately naive numpy interpreter of a stage spec.

Never imports rockit or CasADi.  Works on plain numbers: node values, node times, etc.
"""
import math
import numpy as np
from numpy.polynomial import legendre as L
from numpy.polynomial import polynomial as P

from . import expr as E


# ---------------------------------------------------------------------------------
# model pieces
# ---------------------------------------------------------------------------------

class StageRef:
    def __init__(self, sp):
        self.sp = sp
        self.states = [d for d in sp.get("states", []) if not d.get("quad")]
        self.qstates = [d for d in sp.get("states", []) if d.get("quad")]
        self.controls = sp.get("controls", [])
        self.algebraics = sp.get("algebraics", [])
        self.params = sp.get("params", [])
        self.vars = sp.get("vars", [])
        self.der = {n: ex for n, ex in sp.get("der", [])}
        self.nxt = {n: ex for n, ex in sp.get("next", [])}
        self.alg = [e for a in sp.get("alg", []) for e in a]
        self.nx = sum(d["rows"] * d["cols"] for d in self.states)
        self.nq = sum(d["rows"] * d["cols"] for d in self.qstates)
        self.nz = sum(d["rows"] * d["cols"] for d in self.algebraics)
        self.nu = sum(d["rows"] * d["cols"] for d in self.controls)
        self.discrete = bool(self.nxt)

    @staticmethod
    def numel(d):
        return d["rows"] * d["cols"]

    def split(self, decls, vec, into):
        o = 0
        for d in decls:
            n = self.numel(d)
            into[d["name"]] = np.asarray(vec[o:o + n], dtype=float)
            o += n
        return into

    def rhs(self, x, base, t, T=math.nan, t0=math.nan, z=None):
        """ODE right-hand side and quadrature integrand at state vector x; base holds u/p/v values."""
        vals = dict(base)
        self.split(self.states, x, vals)
        if z is not None:
            self.split(self.algebraics, z, vals)
        env = E.Env(vals, t=t, T=T, t0=t0)
        f = np.array([E.ev(e, env) for d in self.states for e in self.der[d["name"]]], dtype=float)
        q = np.array([E.ev(e, env) for d in self.qstates for e in self.der[d["name"]]], dtype=float)
        return f, q

    def alg_res(self, x, base, t, z, T=math.nan, t0=math.nan):
        vals = dict(base)
        self.split(self.states, x, vals)
        self.split(self.algebraics, z, vals)
        env = E.Env(vals, t=t, T=T, t0=t0)
        return np.array([E.ev(e, env) for e in self.alg], dtype=float)

    def step_next(self, x, base, t, DT, DTc, T=math.nan, t0=math.nan):
        vals = dict(base)
        self.split(self.states, x, vals)
        env = E.Env(vals, t=t, T=T, t0=t0, DT=DT, DTc=DTc)
        xf = np.array([E.ev(e, env) for d in self.states for e in self.nxt[d["name"]]], dtype=float)
        qf = np.array([E.ev(e, env) for d in self.qstates for e in self.nxt[d["name"]]], dtype=float)
        return xf, qf


def rk4_step(R, x, base, t, dt, **kw):
    k1, q1 = R.rhs(x, base, t, **kw)
    k2, q2 = R.rhs(x + dt / 2 * k1, base, t + dt / 2, **kw)
    k3, q3 = R.rhs(x + dt / 2 * k2, base, t + dt / 2, **kw)
    k4, q4 = R.rhs(x + dt * k3, base, t + dt, **kw)
    return x + dt / 6 * (k1 + 2 * k2 + 2 * k3 + k4), dt / 6 * (q1 + 2 * q2 + 2 * q3 + q4)


def euler_step(R, x, base, t, dt, **kw):
    k, q = R.rhs(x, base, t, **kw)
    return x + dt * k, dt * q


def propagate(R, scheme, x, base, t_start, t_end, M, T=math.nan, t0=math.nan):
    """M successive steps over [t_start,t_end].  Returns end state, quadrature increment, list of sub-step start states."""
    DTc = t_end - t_start
    dt = DTc / M
    t = t_start
    q = np.zeros(R.nq)
    xs = []
    qs = []
    for j in range(M):
        xs.append(x)
        qs.append(q.copy())
        if scheme == "rk":
            x, dq = rk4_step(R, x, base, t, dt, T=T, t0=t0)
        elif scheme == "expl_euler":
            x, dq = euler_step(R, x, base, t, dt, T=T, t0=t0)
        elif scheme == "set_next":
            x, dq = R.step_next(x, base, t, dt, DTc, T=T, t0=t0)
        else:
            raise ValueError(scheme)
        q = q + dq
        t = t + dt
    return x, q, xs, qs


# ---------------------------------------------------------------------------------
# collocation
# ---------------------------------------------------------------------------------

def collocation_points(d, scheme):
    if scheme == "legendre":
        x, _ = L.leggauss(d)
        return np.sort((x + 1) / 2)
    if scheme == "radau":
        c = np.zeros(d + 1)
        c[d - 1] = 1.0
        c[d] = -1.0
        r = L.legroots(c)            # roots of P_{d-1} - P_d in [-1, 1]; contains -1?  no: contains +1
        r = np.sort(np.real(r))
        # P_{d-1}(1)-P_d(1)=0 so +1 is a root; these are the right-Radau points
        return (r + 1) / 2
    raise ValueError(scheme)


def lagrange_basis(nodes):
    """List of numpy Polynomial objects l_i with l_i(nodes[j]) = delta_ij."""
    out = []
    for i, ti in enumerate(nodes):
        p = P.Polynomial([1.0])
        for j, tj in enumerate(nodes):
            if j != i:
                p = p * P.Polynomial([-tj, 1.0]) / (ti - tj)
        out.append(p)
    return out


class Colloc:
    def __init__(self, d, scheme):
        self.d = d
        self.tau = collocation_points(d, scheme)
        nodes = np.concatenate([[0.0], self.tau])
        self.basis = lagrange_basis(nodes)
        # Cm[i, j] = l_i'(tau_j),  i=0..d, j=0..d-1
        self.Cm = np.array([[b.deriv()(tj) for tj in self.tau] for b in self.basis])
        self.Dv = np.array([b(1.0) for b in self.basis])
        # interpolatory quadrature weights on tau_1..tau_d (exact for constants by construction)
        qb = lagrange_basis(self.tau)
        self.w = np.array([b.integ()(1.0) - b.integ()(0.0) for b in qb])

    def interp(self, Xc, s):
        """Value at normalised time s of the polynomial through columns of Xc (n x (d+1))."""
        return sum(Xc[:, i] * self.basis[i](s) for i in range(self.d + 1))

    def interp_der(self, Xc, s):
        return sum(Xc[:, i] * self.basis[i].deriv()(s) for i in range(self.d + 1))


# ---------------------------------------------------------------------------------
# grids
# ---------------------------------------------------------------------------------

def normalized_grid(g, N):
    cls = g.get("cls", "uniform")
    if cls in ("uniform", "free"):
        return np.linspace(0.0, 1.0, N + 1)
    if cls == "geometric":
        gf = g["growth"]
        if not g.get("local", False) and N > 1:
            gf = gf ** (1.0 / (N - 1))
        lens = np.array([gf ** i for i in range(N)])
        return np.concatenate([[0.0], np.cumsum(lens)]) / np.sum(lens)
    if cls == "function":
        if g.get("rule") == "power":
            return np.array([(i / N) ** g["power"] for i in range(N + 1)])
        return np.array(g["points"][str(N)], dtype=float)
    if cls == "density":
        a, b = g["a"], g["b"]
        tot = a + b / 2.0
        out = [0.0]
        for i in range(1, N):
            target = i / N * tot
            if abs(b) < 1e-14:
                out.append(target / a)
            else:
                # b/2 s^2 + a s - target = 0
                disc = a * a + 2 * b * target
                out.append((-a + math.sqrt(disc)) / b)
        out.append(1.0)
        return np.array(out)
    raise ValueError(cls)


def control_grid(g, N, t0, T):
    return t0 + T * normalized_grid(g, N)


# ---------------------------------------------------------------------------------
# trajectory context on sampled data
# ---------------------------------------------------------------------------------

class Traj:
    """Node-wise view of one stage's sampled data.

    data: {"tk": (N+1,), "T":, "t0":, "sig": name->(numel, N+1), "glob": name->(numel,)}
    Controls and 'control'-grid quantities have N+1 columns with the last equal to interval N-1
    (that is what the property prescribes for the final node); the reference re-derives this
    itself from the first N columns and never trusts column N for them.
    """

    def __init__(self, R, data, M):
        self.R = R
        self.d = data
        self.tk = np.asarray(data["tk"], dtype=float).reshape(-1)
        self.N = len(self.tk) - 1
        self.M = M
        self.T = float(data["T"])
        self.t0 = float(data["t0"])
        self.kinds = {}
        for dd in R.controls:
            self.kinds[dd["name"]] = "interval"
        for dd in list(R.params) + list(R.vars):
            gk = dd.get("grid", "")
            self.kinds[dd["name"]] = {"": "global", "control": "interval", "control+": "plus"}.get(gk, "other")

    def base_vals(self, k, node=None):
        """Values of u/p/v applying on control interval k ('control+' quantities: column `node`)."""
        node = k if node is None else node
        vals = {}
        for name, kind in self.kinds.items():
            if kind == "global":
                vals[name] = np.asarray(self.d["glob"][name], dtype=float).reshape(-1)
            elif kind == "interval":
                vals[name] = np.asarray(self.d["sig"][name], dtype=float)[:, k]
            elif kind == "plus":
                vals[name] = np.asarray(self.d["sig"][name], dtype=float)[:, node]
        return vals

    def node_env(self, k):
        """Environment at control node k in 0..N (controls / per-interval quantities of the last interval at node N)."""
        if k < 0 or k > self.N:
            raise E.OutOfHorizon()
        ki = min(k, self.N - 1)
        vals = self.base_vals(ki, node=k)
        for dd in self.R.states + self.R.qstates + self.R.algebraics:
            if dd["name"] in self.d["sig"]:
                vals[dd["name"]] = np.asarray(self.d["sig"][dd["name"]], dtype=float)[:, k]
        DTc = self.tk[ki + 1] - self.tk[ki]
        return E.Env(vals, t=self.tk[k], T=self.T, t0=self.t0, DT=DTc / self.M, DTc=DTc, ctx=self, k=k)

    def state_vec(self, k):
        return np.concatenate([np.asarray(self.d["sig"][dd["name"]], dtype=float)[:, k] for dd in self.R.states]) if self.R.states else np.zeros(0)


# ---------------------------------------------------------------------------------
# point clouds: the environments at which signal expressions are evaluated on each grid
# ---------------------------------------------------------------------------------

def grid_envs(tr, data, grid, degree=None):
    """List of Env objects, one per point of `grid`, built from sampled raw ingredients.

    control:          nodes 0..N
    integrator:       the N*M integrator step starts plus the final node (needs data['intg'], data['ti'])
    integrator_roots: every collocation time (needs data['roots'], data['tr'], degree)
    """
    R = tr.R
    N, M = tr.N, tr.M
    if grid == "control":
        return [tr.node_env(k) for k in range(N + 1)]
    if grid == "integrator":
        ti = np.asarray(data["ti"]).reshape(-1)
        envs = []
        for k in range(N):
            DTc = tr.tk[k + 1] - tr.tk[k]
            for l in range(M):
                vals = tr.base_vals(k, node=k)
                for dd in R.states:
                    vals[dd["name"]] = np.asarray(data["intg"][dd["name"]])[:, k * M + l]
                envs.append(E.Env(vals, t=ti[k * M + l], T=tr.T, t0=tr.t0, DT=DTc / M, DTc=DTc, ctx=None, k=None))
        envs.append(tr.node_env(N))
        return envs
    if grid == "integrator_roots":
        trr = np.asarray(data["tr"]).reshape(-1)
        envs = []
        for k in range(N):
            DTc = tr.tk[k + 1] - tr.tk[k]
            for l in range(M):
                for j in range(degree):
                    col = (k * M + l) * degree + j
                    vals = tr.base_vals(k, node=k)
                    for dd in R.states + R.algebraics:
                        if dd["name"] in data["roots"]:
                            vals[dd["name"]] = np.asarray(data["roots"][dd["name"]])[:, col]
                    envs.append(E.Env(vals, t=trr[col], T=tr.T, t0=tr.t0, DT=DTc / M, DTc=DTc))
        return envs
    raise ValueError(grid)


def ev_top(e, tr, integral=None):
    """Evaluate a non-signal expression: placeholders are resolved on the stage trajectory `tr`.

    tr may be a dict stage name -> Traj for multi-stage expressions (placeholder's third entry names the stage).
    integral: callback (stage traj, integrand expr) -> number for ['int', e].
    """
    op = e[0]

    def pick(node):
        if isinstance(tr, dict):
            return tr[node[2]] if len(node) > 2 and node[2] is not None else tr["main"]
        return tr

    if op == "c":
        return e[1]
    if op == "at_t0":
        t = pick(e)
        return E.ev(e[1], t.node_env(0))
    if op == "at_tf":
        t = pick(e)
        return E.ev(e[1], t.node_env(t.N))
    if op == "sum":
        t = pick(e)
        return sum(E.ev(e[1], t.node_env(k)) for k in range(t.N))
    if op == "sump":
        t = pick(e)
        return sum(E.ev(e[1], t.node_env(k)) for k in range(t.N + 1))
    if op == "intc":
        t = pick(e)
        return sum(E.ev(e[1], t.node_env(k)) * (t.tk[k + 1] - t.tk[k]) for k in range(t.N))
    if op == "int":
        t = pick(e)
        return integral(t, e[1])
    if op in ("T", "t0", "tf"):
        if isinstance(tr, dict):
            t = tr[e[1]] if len(e) > 1 and e[1] is not None else tr["main"]
        else:
            t = tr
        return {"T": t.T, "t0": t.t0, "tf": t.t0 + t.T}[op]
    if op == "sym":
        t = tr["main"] if isinstance(tr, dict) else tr
        if isinstance(tr, dict):
            for tt in tr.values():
                if e[1] in tt.d["glob"]:
                    t = tt
        return float(np.asarray(t.d["glob"][e[1]]).reshape(-1)[e[2]])
    if op in E.UNARY:
        a = ev_top(e[1], tr, integral)
        return {"neg": lambda v: -v, "sq": lambda v: v * v, "sin": math.sin, "cos": math.cos, "tanh": math.tanh}[op](a)
    if op in E.BINARY:
        a = ev_top(e[1], tr, integral)
        b = ev_top(e[2], tr, integral)
        return a + b if op == "+" else (a - b if op == "-" else a * b)
    raise ValueError("ev_top: %r" % (op,))


def slacks(rel, lhs, rhs=None, lb=None, ub=None):
    """(kind, value) pairs of the slack functions of one scalar relation."""
    if rel == "<=":
        return [("i", rhs - lhs)]
    if rel == ">=":
        return [("i", lhs - rhs)]
    if rel == "==":
        return [("e", lhs - rhs)]
    if rel == "box":
        return [("i", lhs - lb), ("i", ub - lhs)]
    raise ValueError(rel)


def shooting_integral(tr, scheme, integrand):
    """ocp.integral under shooting: the scheme applied to the augmented system, restarted at every node state."""
    R = tr.R
    sp = dict(R.sp)
    sp["states"] = list(R.states) + [{"name": "__I", "rows": 1, "cols": 1, "quad": True}]
    key = "next" if R.discrete else "der"
    sp[key] = [[n, ex] for n, ex in sp.get(key, []) if n in [d["name"] for d in R.states]] + [["__I", [integrand]]]
    R2 = StageRef(sp)
    total = 0.0
    for k in range(tr.N):
        _, q, _, _ = propagate(R2, scheme, tr.state_vec(k), tr.base_vals(k, node=k), tr.tk[k], tr.tk[k + 1], tr.M, T=tr.T, t0=tr.t0)
        total += q[0]
    return total


def collocation_integral(tr, data, col, integrand):
    """ocp.integral under DirectCollocation: sum over steps of h * w_j * integrand(collocation point j)."""
    envs = grid_envs(tr, data, "integrator_roots", degree=col.d)
    total = 0.0
    idx = 0
    for k in range(tr.N):
        h = (tr.tk[k + 1] - tr.tk[k]) / tr.M
        for l in range(tr.M):
            for j in range(col.d):
                total += h * col.w[j] * E.ev(integrand, envs[idx])
                idx += 1
    return total


def override_params(data, sp, N):
    """Parameter values are known from the spec: use them instead of sampled values, so that a wrong
    per-interval selection inside rockit's sampling cannot hide behind itself."""
    for d in sp.get("params", []):
        if d.get("value") is None:
            continue
        g = d.get("grid", "")
        V = np.array(d["value"], dtype=float)            # rows x (cols * ncol)
        r, c = d["rows"], d["cols"]
        if g == "":
            data["glob"][d["name"]] = V.reshape(r, c).flatten(order="F")
        elif g in ("control", "control+"):
            ncol = V.shape[1] // c
            cols = [V[:, j * c:(j + 1) * c].flatten(order="F") for j in range(ncol)]
            if g == "control":
                cols.append(cols[-1])       # at the final node the last interval's value applies
            data["sig"][d["name"]] = np.array(cols).T
    return data
