"""Runner: ./check <ID> [--tier quick|thorough] [--replay file] [--workers n] [--cases n]

Exit codes: 0 property held on everything explored (known findings are listed, not alarms),
            1 violation (a line `VIOLATION property=<id> replay=<path>` is printed),
            2 harness problem (never reported as a violation).
"""
import argparse
import hashlib
import importlib
import json
import os
import shutil
import subprocess
import sys
import tempfile
import time
import traceback

HERE = os.path.dirname(os.path.dirname(os.path.abspath(__file__)))
REPO = os.environ.get("VERIF_REPO", "/repo")


# ---------------------------------------------------------------------------------
# failures and known findings
# ---------------------------------------------------------------------------------

from vlib.core import Fail, Violation, HarnessInconclusive, _jsonable


def load_findings():
    path = os.path.join(HERE, "known_findings.json")
    if not os.path.exists(path):
        return {"findings": [], "fixed": []}
    with open(path) as f:
        return json.load(f)


def finding_matches(finding, prop_id, fail):
    if finding["property"] != prop_id:
        return False
    sc = finding.get("subcheck")
    if sc is not None and (fail.subcheck not in sc if isinstance(sc, list) else sc != fail.subcheck):
        return False
    for alt in finding.get("match_any", []) or [None]:
        if alt is None:
            break
        if all(fail.features.get(k) == v for k, v in alt.items()):
            break
    else:
        return False
    for k, v in finding.get("match", {}).items():
        have = fail.features.get(k)
        if isinstance(v, list):
            if have not in v:
                return False
        elif have != v:
            return False
    return True


def sut_exception_fail(exc):
    """Classify an exception: raised under a rockit frame -> behaviour of the system under test."""
    tb = traceback.extract_tb(exc.__traceback__)
    where = None
    for fr in tb:
        fn = os.path.abspath(fr.filename)
        if fn.startswith(os.path.join(REPO, "rockit")):
            where = "%s:%s" % (os.path.relpath(fn, REPO), fr.name)
    if where is None:
        return None
    msg = str(exc).strip().splitlines()[0][:200] if str(exc).strip() else ""
    return Fail("sut-exception", {"type": type(exc).__name__, "where": where}, {"message": msg})


# ---------------------------------------------------------------------------------
# worker
# ---------------------------------------------------------------------------------

class Ctx:
    """Passed to prop.check: counters and per-case notes."""

    def __init__(self):
        self.counters = {}
        self.labels = []
        self.tier = "quick"

    def count(self, key, n=1):
        self.counters[key] = self.counters.get(key, 0) + n

    def label(self, lab):
        self.labels.append(lab)


def case_hash(case):
    return hashlib.sha1(json.dumps(case, sort_keys=True, default=str).encode()).hexdigest()


def silence_stdout():
    sys.stdout.flush()
    saved = os.dup(1)
    dn = os.open(os.devnull, os.O_WRONLY)
    os.dup2(dn, 1)
    os.close(dn)
    return saved


def run_case(prop, case, ctx, findings):
    """Returns (unknown_fails, known_hits)."""
    try:
        fails = prop.check(case, ctx) or []
    except HarnessInconclusive as e:
        ctx.count("harness_inconclusive")
        ctx.count("inconclusive:" + str(e)[:60])
        return [], []
    except Violation:
        raise
    except Exception as e:  # noqa: judged below, never swallowed
        if "Notify the CasADi developers" in str(e):
            # an internal assertion of CasADi itself (a CasADi bug, and a loud failure): says nothing about the property
            ctx.count("harness_inconclusive")
            ctx.count("inconclusive:CasADi internal assertion")
            return [], []
        f = sut_exception_fail(e)
        if f is None:
            raise
        if hasattr(prop, "judge_exception"):
            verdict = prop.judge_exception(case, e, f)
            if verdict == "reject":
                ctx.count("rejected_by_sut")
                return [], []
        fails = [f]
    unknown, known = [], []
    for f in fails:
        hit = None
        for fd in findings["findings"]:
            if finding_matches(fd, prop.ID, f):
                hit = fd["id"]
                break
        if hit:
            known.append(hit)
        else:
            unknown.append(f)
    return unknown, known


def worker_main(args):
    import numpy as np
    import hypothesis
    from hypothesis import given, settings, HealthCheck, Phase
    saved_stdout = silence_stdout()
    scratch = tempfile.mkdtemp(prefix="verif_w_")
    os.chdir(scratch)
    prop = importlib.import_module("props." + args.prop.lower())
    findings = load_findings()
    ctx = Ctx()
    ctx.tier = args.tier
    st = {"evaluations": 0, "nontrivial_hashes": set(), "classes": {}, "samples": [], "known": {}, "failing": None, "harness_error": None}
    t0 = time.time()
    phases = [Phase.generate] if (args.tier == "quick" or args.noshrink) else [Phase.generate, Phase.shrink]

    def body(case):
        st["evaluations"] += 1
        ctx.labels = []
        nt = bool(prop.nontrivial(case))
        if nt:
            st["nontrivial_hashes"].add(case_hash(case))
            if len(st["samples"]) < 4:
                st["samples"].append(prop.abbreviate(case) if hasattr(prop, "abbreviate") else case)
        for lab in prop.classify(case):
            st["classes"][lab] = st["classes"].get(lab, 0) + 1
        unknown, known = run_case(prop, case, ctx, findings)
        for lab in ctx.labels:
            st["classes"][lab] = st["classes"].get(lab, 0) + 1
        for k in known:
            st["known"][k] = st["known"].get(k, 0) + 1
        if unknown:
            st["failing"] = (case, unknown)
            raise Violation(repr(unknown[0]))

    test = settings(max_examples=args.cases, database=None, deadline=None, report_multiple_bugs=False,
                    suppress_health_check=list(HealthCheck), phases=phases, derandomize=False,
                    print_blob=False)(hypothesis.seed(args.seed)(given(prop.strategy(args.tier))(body)))
    if hasattr(prop, "enumerate_cases"):
        # finite catalogue: worker i takes every W-th case of the complete enumeration (no sampling)
        allcases = prop.enumerate_cases(args.tier, args.seed // 1000)
        mine = allcases[args.worker::args.nworkers]

        def test():
            for c in mine:
                body(c)
    result = {"violation": None}
    try:
        test()
    except Violation:
        case, unknown = st["failing"]
        result["violation"] = {"case": case, "fails": [f.to_json() for f in unknown]}
    except Exception as e:
        # hypothesis wraps nothing: any other exception is a harness error
        if st["failing"] is not None and isinstance(e, Violation):
            pass
        st["harness_error"] = "".join(traceback.format_exception(type(e), e, e.__traceback__))[-4000:]
    out = {
        "evaluations": st["evaluations"],
        "nontrivial_hashes": sorted(st["nontrivial_hashes"]),
        "classes": st["classes"],
        "samples": _jsonable(st["samples"]),
        "known": st["known"],
        "counters": ctx.counters,
        "violation": _jsonable(result["violation"]),
        "harness_error": st["harness_error"],
        "wall_s": time.time() - t0,
        "seed": args.seed,
    }
    with open(args.out, "w") as f:
        json.dump(out, f)
    os.chdir("/")
    shutil.rmtree(scratch, ignore_errors=True)
    os.dup2(saved_stdout, 1)
    return 0


# ---------------------------------------------------------------------------------
# replay
# ---------------------------------------------------------------------------------

def replay_file(prop, path, findings):
    """Runs one saved case without Hypothesis.  Returns (unknown fails, known ids)."""
    with open(path) as f:
        data = json.load(f)
    ctx = Ctx()
    ctx.tier = "replay"
    return run_case(prop, data["case"], ctx, findings)


def replay_main(args):
    prop = importlib.import_module("props." + args.prop.lower())
    findings = load_findings()
    saved = silence_stdout()
    scratch = tempfile.mkdtemp(prefix="verif_r_")
    cwd = os.getcwd()
    path = os.path.abspath(args.replay)
    os.chdir(scratch)
    try:
        unknown, known = replay_file(prop, path, findings)
    finally:
        os.chdir(cwd)
        shutil.rmtree(scratch, ignore_errors=True)
        os.dup2(saved, 1)
    for k in known:
        print("KNOWN-FINDING: property=%s %s" % (prop.ID, k))
    if unknown:
        for f in unknown[:4]:
            print("  failed sub-check %s %s %s" % (f.subcheck, json.dumps(f.features), json.dumps(_jsonable(f.detail))[:600]))
        print("VIOLATION property=%s replay=%s" % (prop.ID, args.replay))
        return 1
    print("replay passed: %s" % args.replay)
    return 0


# ---------------------------------------------------------------------------------
# parent
# ---------------------------------------------------------------------------------

def write_replay(prop_id, violation):
    # sensitivity tools point the checks at a deliberately broken copy of the code: what fails there is not a regression
    # of the real tree and must not land in the regression tier
    rdir = os.environ.get("VERIF_NEW_REPLAY_DIR") or "replays"
    os.makedirs(os.path.join(HERE, rdir), exist_ok=True)
    h = case_hash(violation["case"])[:12]
    rel = os.path.join(rdir, "%s-%s.json" % (prop_id, h))
    with open(os.path.join(HERE, rel), "w") as f:
        json.dump({"property": prop_id, "case": violation["case"], "fails": violation["fails"]}, f, indent=1, sort_keys=True)
    return rel


def main(argv=None):
    ap = argparse.ArgumentParser()
    ap.add_argument("prop")
    ap.add_argument("--tier", default=os.environ.get("VERIF_TIER", "quick"), choices=["quick", "thorough"])
    ap.add_argument("--replay")
    ap.add_argument("--workers", type=int)
    ap.add_argument("--cases", type=int)
    ap.add_argument("--noshrink", action="store_true")
    ap.add_argument("--no-evidence", action="store_true")
    ap.add_argument("--worker", type=int)
    ap.add_argument("--nworkers", type=int, default=1)
    ap.add_argument("--seed", type=int)
    ap.add_argument("--out")
    args = ap.parse_args(argv)
    args.prop = args.prop.upper()

    if args.worker is not None:
        return worker_main(args)
    if args.replay:
        return replay_main(args)

    t_start = time.time()
    prop = importlib.import_module("props." + args.prop.lower())
    base_seed = int(os.environ.get("VERIF_SEED", "1"))
    budget = prop.BUDGET[args.tier]
    workers = args.workers or budget[0]
    cases = args.cases or budget[1]
    findings = load_findings()

    # 1. regression tier: saved inputs (bypass Hypothesis)
    status = 0
    replays_run = 0
    known_seen = {}
    rdir = os.path.join(HERE, "replays")
    reg = sorted(f for f in os.listdir(rdir) if f.startswith(args.prop + "-") and f.endswith(".json")) if os.path.isdir(rdir) else []
    if reg:
        saved = silence_stdout()
        scratch = tempfile.mkdtemp(prefix="verif_r_")
        cwd = os.getcwd()
        os.chdir(scratch)
        bad = []
        try:
            for fn in reg:
                try:
                    unknown, known = replay_file(prop, os.path.join(rdir, fn), findings)
                except Exception as e:
                    os.chdir(cwd)
                    os.dup2(saved, 1)
                    print("harness error in replay %s: %r" % (fn, e))
                    traceback.print_exc()
                    return 2
                replays_run += 1
                for k in known:
                    known_seen[k] = known_seen.get(k, 0) + 1
                if unknown:
                    bad.append((fn, unknown))
        finally:
            os.chdir(cwd)
            shutil.rmtree(scratch, ignore_errors=True)
            os.dup2(saved, 1)
        for fn, unknown in bad:
            for f in unknown[:4]:
                print("  failed sub-check %s %s %s" % (f.subcheck, json.dumps(f.features), json.dumps(_jsonable(f.detail))[:400]))
            print("VIOLATION property=%s replay=%s" % (args.prop, os.path.join("replays", fn)))
            status = 1

    # 2. generated exploration in worker processes
    outdir = tempfile.mkdtemp(prefix="verif_out_")
    procs = []
    for i in range(workers):
        out = os.path.join(outdir, "w%d.json" % i)
        cmd = [sys.executable, "-m", "vlib.driver", args.prop, "--tier", args.tier, "--worker", str(i),
               "--seed", str(base_seed * 1000 + i), "--cases", str(cases), "--out", out, "--nworkers", str(workers)]
        if args.noshrink:
            cmd.append("--noshrink")
        procs.append((subprocess.Popen(cmd, cwd=HERE, stdout=subprocess.DEVNULL, stderr=subprocess.PIPE), out))
    results = []
    harness_errors = []
    for p, out in procs:
        _, err = p.communicate()
        if os.path.exists(out):
            with open(out) as f:
                results.append(json.load(f))
        else:
            harness_errors.append("worker produced no result (rc=%s): %s" % (p.returncode, err.decode(errors="replace")[-3000:]))
    shutil.rmtree(outdir, ignore_errors=True)

    evaluations = sum(r["evaluations"] for r in results)
    hashes = set()
    classes, counters, known = {}, {}, dict(known_seen)
    samples = []
    for r in results:
        hashes.update(r["nontrivial_hashes"])
        for k, v in r["classes"].items():
            classes[k] = classes.get(k, 0) + v
        for k, v in r["counters"].items():
            counters[k] = counters.get(k, 0) + v
        for k, v in r["known"].items():
            known[k] = known.get(k, 0) + v
        for s in r["samples"]:
            if len(samples) < 5:
                samples.append(s)
        if r["harness_error"]:
            harness_errors.append(r["harness_error"])
    violations = [r["violation"] for r in results if r["violation"]]
    seen_sig = set()
    for v in violations:
        sig = json.dumps([(f["subcheck"], f["features"]) for f in v["fails"]], sort_keys=True)
        if sig in seen_sig:
            continue
        seen_sig.add(sig)
        rel = write_replay(args.prop, v)
        for f in v["fails"][:4]:
            print("  failed sub-check %s %s %s" % (f["subcheck"], json.dumps(f["features"]), json.dumps(f["detail"])[:400]))
        print("VIOLATION property=%s replay=%s" % (args.prop, rel))
        status = 1

    for fd in findings["findings"]:
        if fd["property"] == args.prop:
            print("KNOWN-FINDING: property=%s %s (%s; met %d times in this run)" % (args.prop, fd["what"], fd["id"], known.get(fd["id"], 0)))

    wall = time.time() - t_start
    rejected = counters.get("rejected_by_sut", 0)
    inconcl = counters.get("harness_inconclusive", 0)
    if not args.no_evidence and results:
        ev = {
            "property_id": args.prop,
            "tier": args.tier,
            "seed": base_seed,
            "level": prop.LEVEL,
            "coverage": {
                "evaluations": evaluations + replays_run,
                "distinct_nontrivial": len(hashes),
                "rule": prop.RULE,
                "samples": samples,
                "class_histogram": dict(sorted(classes.items())),
                "counters": dict(sorted(counters.items())),
                "regression_replays": replays_run,
                "known_finding_hits": known,
                "workers": workers,
                "cases_per_worker": cases,
                "exhaustive": bool(getattr(prop, "EXHAUSTIVE", {}).get(args.tier, False)) if isinstance(getattr(prop, "EXHAUSTIVE", None), dict) else False,
            },
            "assumptions": list(getattr(prop, "ASSUMPTIONS", [])),
            "wall_s": round(wall, 2),
            "violations": len(seen_sig),
        }
        try:
            import jsonschema
            with open("/root/.vp/EVIDENCE.schema.json") as f:
                schema = json.load(f)
            jsonschema.validate(ev, schema)
        except FileNotFoundError:
            pass
        except Exception as e:
            print("evidence does not validate: %s" % str(e)[:500])
            harness_errors.append("evidence invalid")
        os.makedirs(os.path.join(HERE, "evidence"), exist_ok=True)
        with open(os.path.join(HERE, "evidence", args.prop + ".json"), "w") as f:
            json.dump(ev, f, indent=1, sort_keys=True)

    print("%s tier=%s seed=%d cases=%d nontrivial_distinct=%d known_hits=%s rejected=%d inconclusive=%d wall=%.1fs" % (
        args.prop, args.tier, base_seed, evaluations, len(hashes), json.dumps(known), rejected, inconcl, wall))
    if harness_errors:
        for h in harness_errors[:3]:
            print("HARNESS ERROR:\n" + h)
        return 2 if status == 0 else status
    if evaluations and (rejected + inconcl) > 0.05 * evaluations and status == 0:
        print("HARNESS: generator unsound or machinery inconclusive on more than 5%% of cases (%d+%d of %d)" % (rejected, inconcl, evaluations))
        return 2
    return status


if __name__ == "__main__":
    sys.exit(main())
