"""Interpret a spec through rockit's public declaration API only."""
import copy
import numpy as np
import casadi as ca

from . import expr as E

IPOPT_QUIET = {"ipopt.print_level": 0, "print_time": False, "ipopt.sb": "yes"}


def _rockit():
    import rockit
    return rockit


class PowerRule:
    """Picklable user function for FunctionGrid: normalised locations (i/N)**power."""

    def __init__(self, power):
        self.power = power

    def __call__(self, N):
        return [(i / N) ** self.power for i in range(N + 1)]


class TableRule:
    def __init__(self, pts):
        self.pts = pts

    def __call__(self, N):
        return list(self.pts[str(N)])


def make_grid(g):
    """Always a fresh grid object (module-level default grid instances are shared singletons)."""
    from rockit import UniformGrid, GeometricGrid, FreeGrid, DensityGrid, DenseEdgesGrid
    from rockit.sampling_method import FunctionGrid
    kw = {}
    for key in ("localize_t0", "localize_T", "min", "max"):
        if key in g and g[key] is not None:
            kw[key] = g[key]
    cls = g.get("cls", "uniform")
    if cls == "uniform":
        return UniformGrid(**kw)
    if cls == "geometric":
        return GeometricGrid(g["growth"], local=g.get("local", False), **kw)
    if cls == "free":
        kw.pop("localize_T", None)
        return FreeGrid(**kw)
    if cls == "function":
        pts = g["points"]  # dict str(N) -> list or a power rule
        if g.get("rule") == "power":
            return FunctionGrid(PowerRule(g["power"]), **kw)
        return FunctionGrid(TableRule(pts), **kw)
    if cls == "density":
        tau = ca.MX.sym("tau")
        a, b = g["a"], g["b"]  # density a + b*tau  (positive on [0,1])
        return DensityGrid(a + b * tau, **kw)
    if cls == "dense_edges":
        return DenseEdgesGrid(multiplier=g.get("multiplier", 10), edge_frac=g.get("edge_frac", 0.1), **kw)
    raise ValueError(cls)


def make_method(m):
    from rockit import MultipleShooting, SingleShooting, DirectCollocation
    cls = m["cls"]
    kw = dict(N=m["N"], M=m.get("M", 1))
    if "grid" in m and m["grid"] is not None:
        kw["grid"] = make_grid(m["grid"])
    else:
        kw["grid"] = make_grid({"cls": "uniform"})
    if cls in ("MS", "SS"):
        kw["intg"] = m.get("intg", "rk")
        if m.get("intg_options"):
            kw["intg_options"] = dict(m["intg_options"])
        return (MultipleShooting if cls == "MS" else SingleShooting)(**kw)
    if cls == "DC":
        kw["degree"] = m.get("degree", 4)
        kw["scheme"] = m.get("scheme", "radau")
        return DirectCollocation(**kw)
    if cls == "Spline":
        from rockit import SplineMethod
        kw.pop("M", None)
        kw.pop("grid", None)
        kw2 = dict(N=m["N"])
        if "grid" in m and m["grid"] is not None:
            kw2["grid"] = make_grid(m["grid"])
        return SplineMethod(**kw2)
    raise ValueError(cls)


def _scale_arg(scale, rows, cols):
    if scale is None:
        return 1
    if isinstance(scale, (int, float)):
        return scale
    return ca.DM(np.array(scale, dtype=float).reshape((cols, rows)).T)  # flat column-major list


def vec_expr(B, exprs, rows, cols, stage):
    """Assemble a rows x cols MX from a flat column-major list of scalar trees."""
    items = [E.to_ca(e, B, stage) for e in exprs]
    if rows == 1 and cols == 1:
        return items[0]
    return ca.reshape(ca.vcat(items), rows, cols)


class Built:
    def __init__(self, spec):
        self.spec = spec
        self.syms = {}
        self.decl = {}       # name -> declaration dict (with 'kind', 'stage')
        self.stages = {}     # stage name -> Stage
        self.stagespec = {}  # stage name -> spec
        self.stage = None    # current default stage (used by to_ca)
        self.ocp = None
        self.constraint_exprs = []  # (stage name, index, MX) for declared constraints

    def numel(self, name):
        d = self.decl[name]
        return d["rows"] * d["cols"]


def horizon_arg(B, h):
    from rockit import FreeTime
    kind = h[0]
    if kind == "num":
        return h[1]
    if kind == "free":
        return FreeTime(h[1])
    if kind == "par":
        return B.syms[h[1]]
    raise ValueError(h)


def declare_symbols(B, st, sp):
    sname = sp["name"]
    for d in sp.get("params", []):
        kw = {}
        if d.get("grid", "") == "control+":
            kw = dict(grid="control", include_last=True)
        elif d.get("grid", ""):
            kw = dict(grid=d["grid"])
        if d.get("grid") == "bspline":
            kw["order"] = d.get("order", 0)
        s = st.parameter(d["rows"], d["cols"], **kw)
        B.syms[d["name"]] = s
        B.decl[d["name"]] = dict(d, kind="param", stage=sname)
    for d in sp.get("states", []):
        s = st.state(d["rows"], d["cols"], quad=d.get("quad", False), scale=_scale_arg(d.get("scale"), d["rows"], d["cols"]))
        B.syms[d["name"]] = s
        B.decl[d["name"]] = dict(d, kind="qstate" if d.get("quad") else "state", stage=sname)
    for d in sp.get("controls", []):
        s = st.control(d["rows"], d["cols"], order=d.get("order", 0), scale=_scale_arg(d.get("scale"), d["rows"], d["cols"]))
        B.syms[d["name"]] = s
        B.decl[d["name"]] = dict(d, kind="control", stage=sname)
    for d in sp.get("algebraics", []):
        s = st.algebraic(d["rows"], d["cols"], scale=_scale_arg(d.get("scale"), d["rows"], d["cols"]))
        B.syms[d["name"]] = s
        B.decl[d["name"]] = dict(d, kind="alg", stage=sname)
    for d in sp.get("vars", []):
        kw = {}
        if d.get("grid", "") == "control+":
            kw = dict(grid="control", include_last=True)
        elif d.get("grid", ""):
            kw = dict(grid=d["grid"])
        if d.get("grid") == "bspline":
            kw["order"] = d.get("order", 0)
        s = st.variable(d["rows"], d["cols"], scale=_scale_arg(d.get("scale"), d["rows"], d["cols"]), **kw)
        B.syms[d["name"]] = s
        B.decl[d["name"]] = dict(d, kind="var", stage=sname)


def relation(lhs, rel, rhs=None, lb=None, ub=None):
    if rel == "<=":
        return lhs <= rhs
    if rel == ">=":
        return lhs >= rhs
    if rel == "==":
        return lhs == rhs
    if rel == "box":
        return lb <= (lhs <= ub)
    raise ValueError(rel)


def constraint_mx(B, st, c):
    n = len(c["lhs"])
    lhs = vec_expr(B, c["lhs"], n, 1, st)
    if c["rel"] == "box":
        lb = vec_expr(B, c["lb"], n, 1, st) if len(c["lb"]) == n else E.to_ca(c["lb"][0], B, st)
        ub = vec_expr(B, c["ub"], n, 1, st) if len(c["ub"]) == n else E.to_ca(c["ub"][0], B, st)
        return relation(lhs, "box", lb=lb, ub=ub)
    rhs = vec_expr(B, c["rhs"], n, 1, st) if len(c["rhs"]) == n else E.to_ca(c["rhs"][0], B, st)
    return relation(lhs, c["rel"], rhs=rhs)


def apply_constraint(B, st, c):
    mx = constraint_mx(B, st, c)
    kw = {}
    if c.get("grid") is not None:
        kw["grid"] = c["grid"]
    if "include_first" in c:
        kw["include_first"] = c["include_first"]
    if "include_last" in c:
        kw["include_last"] = c["include_last"]
    if c.get("scale") is not None:
        sc = c["scale"]
        kw["scale"] = sc if isinstance(sc, (int, float)) else ca.DM(sc)
    st.subject_to(mx, **kw)
    return mx


def guess_value(B, st, g):
    """g: ["num", v] | ["arr", nested list] | ["np1d", list] | ["dm", nested] | ["expr", [trees...], rows, cols]"""
    kind = g[0]
    if kind == "num":
        return g[1]
    if kind == "arr":
        return np.array(g[1], dtype=float)
    if kind == "np1d":
        return np.array(g[1], dtype=float)
    if kind == "dm":
        return ca.DM(np.array(g[1], dtype=float))
    if kind == "expr":
        return vec_expr(B, g[1], g[2], g[3], st)
    raise ValueError(g)


def apply_initial(B, st, item):
    name, g = item
    if name == "T":
        var = st.T
    elif name == "t0":
        var = st.t0
    else:
        var = B.syms[name]
    st.set_initial(var, guess_value(B, st, g))


def apply_value(B, st, name, value):
    d = B.decl[name]
    v = np.array(value, dtype=float)
    if v.ndim == 0:
        v = float(v)
    st.set_value(B.syms[name], v)


def populate_stage(B, st, sp, skip=()):
    """Declare everything of one stage spec on Stage object `st`."""
    sname = sp["name"]
    B.stages[sname] = st
    B.stagespec[sname] = sp
    B.stage = st
    declare_symbols(B, st, sp)
    if "horizon_late" in sp:
        # horizon given by a parameter: must be set after the parameter exists
        h = sp["horizon_late"]
        if "T" in h:
            st.set_T(horizon_arg(B, h["T"]))
        if "t0" in h:
            st.set_t0(horizon_arg(B, h["t0"]))
    for key, setter in (("der", st.set_der), ("next", st.set_next)):
        items = list(sp.get(key, []))
        if sp.get("dyn_reversed"):
            items.reverse()      # the order of set_der / set_next calls is not the order in which the states were declared
        if sp.get("dyn_concat") and not sp.get("der_scale"):
            # one call on a concatenation of the (non-quadrature) states, matrix-shaped ones flattened column-major
            grp = [(n, ex) for n, ex in items if B.decl[n]["kind"] == "state"]
            items = [(n, ex) for n, ex in items if B.decl[n]["kind"] != "state"]
            if grp:
                setter(ca.veccat(*[B.syms[n] for n, _ in grp]), ca.vertcat(*[ca.vec(vec_expr(B, ex, B.decl[n]["rows"], B.decl[n]["cols"], st)) for n, ex in grp]))
        for name, exprs in items:
            d = B.decl[name]
            if key == "der":
                st.set_der(B.syms[name], vec_expr(B, exprs, d["rows"], d["cols"], st), **({"scale": sp["der_scale"][name]} if name in sp.get("der_scale", {}) else {}))
            else:
                st.set_next(B.syms[name], vec_expr(B, exprs, d["rows"], d["cols"], st))
    for a in sp.get("alg", []):
        st.add_alg(vec_expr(B, a, len(a), 1, st))
    if "values" not in skip:
        for d in sp.get("params", []):
            if d.get("value") is not None:
                apply_value(B, st, d["name"], d["value"])
    if "method" not in skip and sp.get("method") is not None:
        st.method(make_method(sp["method"]))
    if "constraints" not in skip:
        for c in sp.get("constraints", []):
            apply_constraint(B, st, c)
    if "objective" not in skip:
        for t in sp.get("objective", []):
            st.add_objective(E.to_ca(t, B, st))
    if "initial" not in skip:
        for item in sp.get("initial", []):
            apply_initial(B, st, item)


def stage_ctor_kwargs(B, sp):
    kw = {}
    for key in ("t0", "T"):
        h = sp.get(key)
        if h is not None and h[0] != "par":
            kw[key] = horizon_arg(B, h)
    if sp.get("time_scale") is not None:
        kw["scale"] = sp["time_scale"]      # the constructor's 'typical time scale' option: never changes the problem
    return kw


def build(spec, skip=()):
    """spec: stage spec of the Ocp with optional 'substages' and 'solver'."""
    from rockit import Ocp
    spec = copy.deepcopy(spec)
    B = Built(spec)
    # parametric horizons are installed after the parameter has been declared
    late = {}
    for key in ("t0", "T"):
        h = spec.get(key)
        if h is not None and h[0] == "par":
            late[key] = h
    if late:
        spec["horizon_late"] = late
    ocp = Ocp(**stage_ctor_kwargs(B, spec))
    B.ocp = ocp
    populate_stage(B, ocp, spec, skip=skip)
    B.owner = {spec["name"]: spec["name"]}   # stage name -> name of the stage spec whose declarations it carries
    for tpl in spec.get("templates", []):
        from rockit import Stage
        late = {}
        for key in ("t0", "T"):
            h = tpl.get(key)
            if h is not None and h[0] == "par":
                late[key] = h
        if late:
            tpl["horizon_late"] = late
        tst = Stage(**stage_ctor_kwargs(B, tpl))
        populate_stage(B, tst, tpl, skip=skip)
        B.owner[tpl["name"]] = tpl["name"]
    for sub in spec.get("substages", []):
        if sub.get("template"):
            tname = sub["template"]
            kw = {}
            for key in ("t0", "T"):
                if sub.get(key) is not None:
                    kw[key] = horizon_arg(B, sub[key])
            st = ocp.stage(B.stages[tname], **kw)
            B.stages[sub["name"]] = st
            B.stagespec[sub["name"]] = sub
            B.owner[sub["name"]] = tname
            B.stage = st
            for c in sub.get("constraints", []):
                apply_constraint(B, st, c)
            for t in sub.get("objective", []):
                st.add_objective(E.to_ca(t, B, st))
            for d in sub.get("param_values", []):
                apply_value(B, st, d[0], d[1])
            continue
        B.owner[sub["name"]] = sub["name"]
        late = {}
        for key in ("t0", "T"):
            h = sub.get(key)
            if h is not None and h[0] == "par":
                late[key] = h
        if late:
            sub["horizon_late"] = late
        st = ocp.stage(**stage_ctor_kwargs(B, sub))
        populate_stage(B, st, sub, skip=skip)
    # parent-level coupling (declared after all stages exist)
    B.stage = ocp
    for c in spec.get("coupling", []):
        # "on": name of the sub-stage whose subject_to receives the constraint (default: the parent)
        apply_constraint(B, B.stages[c["on"]] if c.get("on") else ocp, c)
    for t in spec.get("parent_objective", []):
        ocp.add_objective(E.to_ca(t, B, ocp))
    if "solver" not in skip:
        sv = spec.get("solver", ["ipopt", {}])
        opts = dict(IPOPT_QUIET) if sv[0] == "ipopt" else {}
        if isinstance(sv[1].get("ipopt"), dict):
            # plugin options given as a nested dictionary
            opts = {"print_time": False, "ipopt": dict({"print_level": 0, "sb": "yes"}, **sv[1]["ipopt"])}
            opts.update({k: v for k, v in sv[1].items() if k != "ipopt"})
        else:
            opts.update(sv[1])
        ocp.solver(sv[0], opts)
    return B
